(* C17, C18 at the front end: which fields become custom fields, which kind / element type / cast /
   nullability / zero literal every other field gets, and which cast fields make the whole type fail.

   Two regressions motivate the statements:
   (R1, C17) a guard "a field with a gogoproto.casttype is never a custom field" in IsCustomType: a field that
       the configuration declares custom (custom_types entry for its path) and that also carries a cast type
       silently stops being delegated.  build_view_kind_spec says that the field is custom exactly when the
       configuration or the descriptor says so, whatever its cast type, cardinality or proto type
       (C17_custom_by_configuration, C17_custom_over_cast).
   (R2, C18) the duration case of GetTerraformType matching only when duration_type is configured: an int64
       cast to the custom duration type (or to time.Duration) without duration_type falls through to the
       int64 case instead of failing.  C18_cast_duration_without_type and its liftings to the message and to
       the selected types say that it fails; C18_cast_duration_with_type says what it is when it does not. *)
From Coq Require Import List String Ascii Bool ZArith.
From PGT Require Import Base.Strs Base.AList Model.Vals Model.IR Model.Names Model.Desc Model.Build.
From PGT Require Import Proofs.FrontEndProofs Proofs.BuildProofs Proofs.NamesProofs Proofs.SrcKinds Proofs.KindLink.
Import ListNotations.
Local Open Scope string_scope.

(* ------------------------------------------------------------------------------------- *)
(* A. GetTerraformType in closed form *)

(* the Terraform element type, the Go type values are cast from, the presence of a zero literal: what
   GetTerraformType answers when it answers (the is-message answer is KindLink.view_is_message) *)
Definition tf_kind (cfg : cfg_obs) (v : fview) : tfkind :=
  if v_is_time v then KTime
  else if v_is_duration cfg v then KDur
  else match v_type v with PScalar s => fst (scalar_info s) | _ => KI64 end.

Definition tf_cast (cfg : cfg_obs) (v : fview) : goscalar :=
  if v_is_time v then GsTime
  else if v_is_duration cfg v then GsDuration
  else match v_type v with PScalar s => snd (scalar_info s) | PEnum _ => GsEnum | _ => GsInt64 end.

Definition tf_zero (cfg : cfg_obs) (v : fview) : bool :=
  negb (v_is_time v) && negb (v_is_duration cfg v)
  && match v_type v with PScalar _ | PEnum _ => true | _ => false end.

(* ... and when it answers: time needs time_type, duration (which is asked after time) needs duration_type,
   a group never maps *)
Definition tf_mappable (cfg : cfg_obs) (v : fview) : bool :=
  if v_is_time v then o_time_type cfg
  else if v_is_duration cfg v then o_duration_type cfg
  else match v_type v with PGroup => false | _ => true end.

Lemma terraform_type_ok_iff cfg v fp r :
  terraform_type cfg v fp = BOk r <->
  tf_mappable cfg v = true /\ r = (view_is_message cfg v, tf_kind cfg v, tf_cast cfg v, tf_zero cfg v).
Proof.
  unfold terraform_type, tf_mappable, view_is_message, tf_kind, tf_cast, tf_zero.
  destruct (v_is_time v).
  { destruct (o_time_type cfg); cbn [negb andb]; split;
      [intros [= <-]; auto|intros [_ ->]; reflexivity|discriminate|intros [? _]; discriminate]. }
  destruct (v_is_duration cfg v).
  { destruct (o_duration_type cfg); cbn [negb andb]; split;
      [intros [= <-]; auto|intros [_ ->]; reflexivity|discriminate|intros [? _]; discriminate]. }
  cbn [negb andb].
  destruct (v_type v) as [s|n|n| | | |kt vt]; cbn [is_message_type fst snd];
    try (split; [intros [= <-]; auto|intros [_ ->]; reflexivity]).
  - destruct (scalar_info s) as [k g]. cbn [fst snd].
    split; [intros [= <-]; auto|intros [_ ->]; reflexivity].
  - split; [discriminate|intros [? _]; discriminate].
Qed.

Lemma terraform_type_ok cfg v fp im tk gs z :
  terraform_type cfg v fp = BOk (im, tk, gs, z) ->
  tf_mappable cfg v = true /\ im = view_is_message cfg v /\ tk = tf_kind cfg v /\ gs = tf_cast cfg v /\
  z = tf_zero cfg v.
Proof.
  intros H. apply terraform_type_ok_iff in H. destruct H as [Hm [= -> -> -> ->]]. auto.
Qed.
Print Assumptions terraform_type_ok.

(* GetTerraformType never runs out of fuel, and fails exactly on the unmappable views *)
Lemma terraform_type_err_iff cfg v fp :
  (exists e, terraform_type cfg v fp = BErr e) <-> tf_mappable cfg v = false.
Proof.
  unfold terraform_type, tf_mappable.
  destruct (v_is_time v); [destruct (o_time_type cfg); split; eauto; try discriminate; intros [e ?]; discriminate|].
  destruct (v_is_duration cfg v);
    [destruct (o_duration_type cfg); split; eauto; try discriminate; intros [e ?]; discriminate|].
  destruct (v_type v) as [s|n|n| | | |kt vt]; try (split; [intros [e ?]; discriminate|discriminate]).
  - destruct (scalar_info s). split; [intros [e ?]; discriminate|discriminate].
  - split; eauto.
Qed.
Print Assumptions terraform_type_err_iff.

(* time and duration are primitives, although their proto type is a message *)
Lemma time_is_not_message cfg v : v_is_time v = true -> view_is_message cfg v = false.
Proof. intros H. unfold view_is_message. now rewrite H. Qed.

Lemma duration_is_not_message cfg v : v_is_duration cfg v = true -> view_is_message cfg v = false.
Proof. intros H. unfold view_is_message. rewrite H. now rewrite andb_false_r. Qed.

(* ------------------------------------------------------------------------------------- *)
(* B. the custom type of a view *)

(* IsCustomType / the custom type name: the configuration (custom_types, keyed by the field path) wins
   over gogoproto.customtype.  Nothing else is asked: not the cast type, not the cardinality, not the type. *)
Definition view_custom (cfg : cfg_obs) (v : fview) (fp : string) : option string :=
  match o_custom_type cfg fp with
  | Some t => Some t
  | None => if String.eqb (v_custom v) "" then None else Some (v_custom v)
  end.

Definition suffix_of (cfg : cfg_obs) (t : string) : string :=
  match o_suffix cfg t with Some s => s | None => default_suffix t end.

Lemma view_custom_some_iff cfg v fp t :
  view_custom cfg v fp = Some t <->
  o_custom_type cfg fp = Some t \/ (o_custom_type cfg fp = None /\ v_custom v = t /\ t <> "").
Proof.
  unfold view_custom. destruct (o_custom_type cfg fp) as [t'|].
  - split; [intros [= ->]; auto|intros [H|(H & _)]; [exact H|discriminate]].
  - destruct (String.eqb_spec (v_custom v) "") as [E|N]; split.
    + discriminate.
    + intros [H|(_ & H & N)]; [discriminate|]. congruence.
    + intros [= <-]. auto.
    + intros [H|(_ & -> & _)]; [discriminate|reflexivity].
Qed.

Lemma view_custom_none_iff cfg v fp :
  view_custom cfg v fp = None <-> o_custom_type cfg fp = None /\ v_custom v = "".
Proof.
  unfold view_custom. destruct (o_custom_type cfg fp) as [t'|].
  - split; [discriminate|intros [? _]; discriminate].
  - destruct (String.eqb_spec (v_custom v) "") as [E|N]; split; auto; try discriminate.
    intros [_ E]. contradiction.
Qed.

Lemma view_custom_is_some_iff cfg v fp :
  (exists t, view_custom cfg v fp = Some t) <-> o_custom_type cfg fp <> None \/ v_custom v <> "".
Proof.
  destruct (view_custom cfg v fp) as [t|] eqn:E.
  - split; [intros _|eauto]. apply view_custom_some_iff in E.
    destruct E as [E|(_ & E & N)]; [left; congruence|right; congruence].
  - apply view_custom_none_iff in E. destruct E as [E1 E2]. split.
    + intros [t ?]. discriminate.
    + intros [N|N]; contradiction.
Qed.

(* ------------------------------------------------------------------------------------- *)
(* C. build_view, unfolded once *)

(* setMapValues *)
Definition map_values (cfg : cfg_obs) (table : list mdesc) (rec : mdesc -> string -> bres message)
           (v : fview) (fp : string) (o : option fdesc)
  : bres (option (bool * tfkind * goscalar * bool * option message)) :=
  match v_type v, o with
  | PMap kt vt, Some f =>
      match kt with
      | PScalar SString =>
          let vv := view_of_map_value f vt in
          bdo tt1 <- terraform_type cfg vv fp;
          let '(vmsg, vtk, vgs, _) := tt1 in
          bdo vom <-
            (if vmsg then
               match vt with
               | PMsg mn =>
                   match find_msg table mn with
                   | Some d' => bdo m' <- rec d' fp; BOk (Some m')
                   | None => BErr ("failed to resolve message " ++ mn)
                   end
               | _ => BOk None
               end
             else BOk None);
          BOk (Some (vmsg, vtk, vgs, v_star vv, vom))
      | _ => BErr ("non-string map keys are not supported " ++ fp)
      end
  | _, _ => BOk None
  end.

Lemma map_values_spec cfg table rec v fp o mv :
  map_values cfg table rec v fp o = BOk mv ->
  match v_type v, o with
  | PMap kt vt, Some f =>
      kt = PScalar SString /\ tf_mappable cfg (view_of_map_value f vt) = true /\
      exists vom, mv = Some (view_is_message cfg (view_of_map_value f vt), tf_kind cfg (view_of_map_value f vt),
                             tf_cast cfg (view_of_map_value f vt), map_value_star f vt, vom)
  | _, _ => mv = None
  end.
Proof.
  unfold map_values. intros H.
  destruct (v_type v) as [s|n|n| | | |kt vt].
  1-6: injection H as <-; reflexivity.
  destruct o as [f|]; [|injection H as <-; reflexivity].
  destruct kt as [[]| | | | | |]; try discriminate.
  cbv zeta in H.
  destruct (terraform_type cfg (view_of_map_value f vt) fp) as [[[[vmsg vtk] vgs] vz]|e|] eqn:Ev;
    cbn [bbind] in H; try discriminate.
  apply terraform_type_ok in Ev. destruct Ev as (Hm & -> & -> & -> & _).
  match type of H with bbind ?X _ = _ => destruct X as [vom|e|] end; cbn [bbind] in H; try discriminate.
  injection H as <-. split; [reflexivity|]. split; [exact Hm|]. exists vom. reflexivity.
Qed.

(* every kind-related attribute of the single field, in terms of GetTerraformType's answer on the view and
   of setMapValues' answer *)
Lemma build_view_unfold cfg table rec d v b tn fp o i om :
  build_view cfg table rec d v b tn fp o = BOk [Field i om] ->
  o_excluded cfg tn fp = false ->
  embedded_view cfg v = false ->
  exists im tk gs z mv,
    terraform_type cfg v fp = BOk (im, tk, gs, z) /\
    map_values cfg table rec v fp o = BOk mv /\
    fi_kind i = (match view_custom cfg v fp with
                 | Some _ => CustomKind
                 | None =>
                     match mv with
                     | Some (vmsg, _, _, _, _) => if vmsg : bool then ObjectMapKind else PrimitiveMapKind
                     | None => if v_is_repeated v then (if im then ObjectListKind else PrimitiveListKind)
                               else if im then ObjectKind else PrimitiveKind
                     end
                 end) /\
    fi_suffix i = (match view_custom cfg v fp with Some t => suffix_of cfg t | None => "" end) /\
    fi_tk i = (match mv with Some (_, vtk, _, _, _) => vtk | None => tk end) /\
    fi_cast i = (match mv with Some (_, _, vgs, _, _) => vgs | None => gs end) /\
    fi_nullable i = (match mv with Some (_, _, _, vstar, _) => vstar | None => v_star v end) /\
    fi_zero i = (match mv with Some _ => false | None => z end).
Proof.
  intros H Hx Hs. unfold build_view in H. rewrite Hx in H.
  destruct (terraform_type cfg v fp) as [[[[im tk] gs] z]|e|] eqn:Et; cbn [bbind] in H; try discriminate.
  pose proof (terraform_type_is_msg _ _ _ _ _ _ _ Et) as Eim.
  match type of H with bbind ?X _ = _ => destruct X as [om0|e|] end; cbn [bbind] in H; try discriminate.
  assert (Hne : (im && negb (v_is_map v) && v_embed v)%bool = false).
  { rewrite Eim. exact Hs. }
  exists im, tk, gs, z.
  destruct om0 as [m'|]; rewrite ?Hne in H; cbv iota in H.
  - match type of H with bbind ?X _ = _ => destruct X as [mv|e|] eqn:Emv end; cbn [bbind] in H; try discriminate.
    exists mv. split; [reflexivity|]. split; [exact Emv|].
    destruct mv as [[[[[vmsg vtk] vgs] vstar] vom]|]; cbv beta iota zeta in H;
      injection H as Hi _; rewrite <- Hi; cbn [fi_kind fi_suffix fi_tk fi_cast fi_nullable fi_zero];
      repeat split; reflexivity.
  - match type of H with bbind ?X _ = _ => destruct X as [mv|e|] eqn:Emv end; cbn [bbind] in H; try discriminate.
    exists mv. split; [reflexivity|]. split; [exact Emv|].
    destruct mv as [[[[[vmsg vtk] vgs] vstar] vom]|]; cbv beta iota zeta in H;
      injection H as Hi _; rewrite <- Hi; cbn [fi_kind fi_suffix fi_tk fi_cast fi_nullable fi_zero];
      repeat split; reflexivity.
Qed.

(* the other direction, for the views that are neither messages nor maps: BuildField succeeds with one
   field without a nested message as soon as GetTerraformType does *)
Lemma build_view_prim_ok cfg table rec d v b tn fp o tk gs z :
  o_excluded cfg tn fp = false ->
  terraform_type cfg v fp = BOk (false, tk, gs, z) ->
  v_is_map v = false ->
  exists i, build_view cfg table rec d v b tn fp o = BOk [Field i None].
Proof.
  intros Hx Et Hm. unfold build_view. rewrite Hx, Et. cbn [bbind andb].
  unfold v_is_map in Hm.
  destruct (v_type v) as [s|n|n| | | |kt vt]; try discriminate; cbn [bbind]; eexists; reflexivity.
Qed.

(* ------------------------------------------------------------------------------------- *)
(* D. the characterisation *)

(* the view whose Terraform type is the element type of the field: the value of a map (of a declared map
   field: build_field_list always passes the field), else the view itself *)
Definition elem_view (v : fview) (o : option fdesc) : fview :=
  match v_type v, o with
  | PMap _ vt, Some f => view_of_map_value f vt
  | _, _ => v
  end.

Definition declared_map (v : fview) (o : option fdesc) : bool :=
  match v_type v, o with PMap _ _, Some _ => true | _, _ => false end.

(* getKind for a field that is not custom: map (by its value), then list, then single; "message" is
   GetTerraformType's is-message answer, so that time and duration are primitives *)
Definition plain_kind (cfg : cfg_obs) (v : fview) (o : option fdesc) : kind :=
  if declared_map v o
  then (if view_is_message cfg (elem_view v o) then ObjectMapKind else PrimitiveMapKind)
  else if v_is_repeated v
       then (if view_is_message cfg v then ObjectListKind else PrimitiveListKind)
       else if view_is_message cfg v then ObjectKind else PrimitiveKind.

Record kind_spec (cfg : cfg_obs) (v : fview) (fp : string) (o : option fdesc) (i : finfo) : Prop := {
  (* C17: custom exactly when the configuration or the descriptor says so *)
  ks_custom_iff : fi_kind i = CustomKind <-> (o_custom_type cfg fp <> None \/ v_custom v <> "");
  (* the suffix of the three user functions: of the configured type if any, else of gogoproto.customtype *)
  ks_custom : forall t, view_custom cfg v fp = Some t -> fi_kind i = CustomKind /\ fi_suffix i = suffix_of cfg t;
  ks_plain : view_custom cfg v fp = None -> fi_kind i = plain_kind cfg v o /\ fi_suffix i = "";
  (* element type, cast, nullability, zero literal: never touched by the custom type *)
  ks_tk : fi_tk i = tf_kind cfg (elem_view v o);
  ks_cast : fi_cast i = tf_cast cfg (elem_view v o);
  ks_nullable : fi_nullable i = v_star (elem_view v o);
  ks_zero : fi_zero i = negb (declared_map v o) && tf_zero cfg v;
  (* C18: what a built field says of the configuration and of the descriptor *)
  ks_mappable : tf_mappable cfg v = true;
  ks_elem_mappable : tf_mappable cfg (elem_view v o) = true;
  ks_map_key : forall kt vt, v_type v = PMap kt vt -> o <> None -> kt = PScalar SString
}.

Theorem build_view_kind_spec cfg table rec d v b tn fp o i om :
  build_view cfg table rec d v b tn fp o = BOk [Field i om] ->
  o_excluded cfg tn fp = false ->
  embedded_view cfg v = false ->
  kind_spec cfg v fp o i.
Proof.
  intros H Hx Hs.
  destruct (build_view_unfold _ _ _ _ _ _ _ _ _ _ _ H Hx Hs)
    as (im & tk & gs & z & mv & Et & Emv & Ek & Esu & Etk & Ec & En & Ez).
  apply terraform_type_ok in Et. destruct Et as (Hmp & -> & -> & -> & ->).
  apply map_values_spec in Emv.
  assert (Hmv : (declared_map v o = true /\
                 exists vom, mv = Some (view_is_message cfg (elem_view v o), tf_kind cfg (elem_view v o),
                                        tf_cast cfg (elem_view v o), v_star (elem_view v o), vom)) \/
                (declared_map v o = false /\ elem_view v o = v /\ mv = None)).
  { unfold declared_map, elem_view.
    destruct (v_type v) as [s|n|n| | | |kt vt]; try solve [right; auto].
    destruct o as [f|]; [|solve [right; auto]].
    left. destruct Emv as (_ & _ & vom & ->). split; [reflexivity|]. exists vom. reflexivity. }
  assert (Hplain : view_custom cfg v fp = None -> fi_kind i = plain_kind cfg v o /\ fi_suffix i = "").
  { intros Ecu. rewrite Ecu in Ek, Esu. split; [|exact Esu]. rewrite Ek. unfold plain_kind.
    destruct Hmv as [(Hd & vom & ->)|(Hd & _ & ->)]; rewrite Hd; reflexivity. }
  assert (Hcustom : forall t, view_custom cfg v fp = Some t ->
                              fi_kind i = CustomKind /\ fi_suffix i = suffix_of cfg t).
  { intros t Ecu. rewrite Ecu in Ek, Esu. auto. }
  constructor.
  - rewrite <- view_custom_is_some_iff. split.
    + intros Hk. destruct (view_custom cfg v fp) as [t|] eqn:Ecu; [eauto|].
      exfalso. destruct (Hplain eq_refl) as [Hp _]. rewrite Hp in Hk. unfold plain_kind in Hk.
      destruct (declared_map v o), (v_is_repeated v), (view_is_message cfg (elem_view v o)),
        (view_is_message cfg v); discriminate.
    + intros [t Ecu]. apply (Hcustom t Ecu).
  - exact Hcustom.
  - exact Hplain.
  - rewrite Etk. destruct Hmv as [(_ & vom & ->)|(_ & -> & ->)]; reflexivity.
  - rewrite Ec. destruct Hmv as [(_ & vom & ->)|(_ & -> & ->)]; reflexivity.
  - rewrite En. destruct Hmv as [(_ & vom & ->)|(_ & -> & ->)]; reflexivity.
  - rewrite Ez. destruct Hmv as [(Hd & vom & ->)|(Hd & _ & ->)]; rewrite Hd; reflexivity.
  - exact Hmp.
  - destruct Hmv as [(Hd & _)|(_ & -> & _)]; [|exact Hmp].
    unfold declared_map, elem_view in *.
    destruct (v_type v) as [s|n|n| | | |kt vt]; try discriminate.
    destruct o as [f|]; [|discriminate]. apply Emv.
  - intros kt vt Ety Ho. rewrite Ety in Emv. destruct o as [f|]; [|contradiction]. apply Emv.
Qed.
Print Assumptions build_view_kind_spec.

(* the call build_field_list makes for a declared field *)
Corollary declared_field_kind_spec cfg table rec d f b tn fp i om :
  build_view cfg table rec d (view_of_field f) b tn fp (Some f) = BOk [Field i om] ->
  o_excluded cfg tn fp = false ->
  embedded_view cfg (view_of_field f) = false ->
  kind_spec cfg (view_of_field f) fp (Some f) i.
Proof. apply build_view_kind_spec. Qed.
Print Assumptions declared_field_kind_spec.

(* the same decision, as getKind takes it on the five flags (KindLink.view_flags), for a declared field *)
Lemma plain_kind_model_kind cfg v fp o :
  (v_is_map v = true -> o <> None) ->
  (match view_custom cfg v fp with Some _ => CustomKind | None => plain_kind cfg v o end)
  = model_kind (view_flags cfg v fp).
Proof.
  intros Hm. unfold model_kind, view_flags, view_custom, plain_kind, declared_map, elem_view, v_is_map in *.
  cbn [k_custom k_map k_mapmsg k_repeated k_message].
  destruct (o_custom_type cfg fp); [reflexivity|].
  destruct (String.eqb (v_custom v) ""); [|reflexivity]. cbn [negb].
  destruct (v_type v) as [s|n|n| | | |kt vt]; try reflexivity.
  destruct o as [f|]; [|exfalso; now apply Hm]. reflexivity.
Qed.
Print Assumptions plain_kind_model_kind.

(* the statement "a map field has a map kind" needs the declared field: BuildField on a map view WITHOUT it
   (a call build_field_list never makes) skips setMapValues, and the field comes out as a single object *)
Lemma map_kind_by_type_alone_refuted :
  ~ (forall cfg table rec d v b tn fp o i om kt vt,
        build_view cfg table rec d v b tn fp o = BOk [Field i om] ->
        o_excluded cfg tn fp = false -> embedded_view cfg v = false ->
        o_custom_type cfg fp = None -> v_custom v = "" ->
        v_type v = PMap kt vt ->
        fi_kind i = ObjectMapKind \/ fi_kind i = PrimitiveMapKind).
Proof.
  intros H.
  pose (f := KindTests.fd (PMap KindTests.str KindTests.str) false "" false false).
  pose (cfg := KindTests.cfg0 None).
  assert (E : exists i om,
             build_view cfg KindTests.table0 (build_message cfg KindTests.table0 3) KindTests.outer
                        (view_of_field f) false "Out.x" "Out.x" None = BOk [Field i om] /\
             fi_kind i = ObjectKind).
  { vm_compute. eexists. eexists. split; reflexivity. }
  destruct E as (i & om & E & K).
  specialize (H _ _ _ _ _ _ _ _ _ i om (PScalar SString) (PScalar SString) E eq_refl eq_refl eq_refl eq_refl eq_refl).
  rewrite K in H. destruct H; discriminate.
Qed.
Print Assumptions map_kind_by_type_alone_refuted.

(* the unfolded forms the task statement uses *)
Corollary build_view_custom_iff cfg table rec d v b tn fp o i om :
  build_view cfg table rec d v b tn fp o = BOk [Field i om] ->
  o_excluded cfg tn fp = false -> embedded_view cfg v = false ->
  (fi_kind i = CustomKind <-> (o_custom_type cfg fp <> None \/ v_custom v <> "")).
Proof. intros H Hx Hs. apply (ks_custom_iff _ _ _ _ _ (build_view_kind_spec _ _ _ _ _ _ _ _ _ _ _ H Hx Hs)). Qed.
Print Assumptions build_view_custom_iff.

Corollary build_view_custom_suffix cfg table rec d v b tn fp o i om :
  build_view cfg table rec d v b tn fp o = BOk [Field i om] ->
  o_excluded cfg tn fp = false -> embedded_view cfg v = false ->
  (o_custom_type cfg fp <> None \/ v_custom v <> "") ->
  let t := match o_custom_type cfg fp with Some t => t | None => v_custom v end in
  fi_kind i = CustomKind /\
  fi_suffix i = match o_suffix cfg t with Some s => s | None => default_suffix t end.
Proof.
  intros H Hx Hs Hc t.
  pose proof (build_view_kind_spec _ _ _ _ _ _ _ _ _ _ _ H Hx Hs) as K.
  apply (ks_custom _ _ _ _ _ K). subst t. unfold view_custom.
  destruct (o_custom_type cfg fp) as [t'|]; [reflexivity|].
  destruct (String.eqb_spec (v_custom v) "") as [E|N]; [|reflexivity].
  destruct Hc as [Hc|Hc]; contradiction.
Qed.
Print Assumptions build_view_custom_suffix.

Corollary build_view_plain_kind cfg table rec d v b tn fp o i om :
  build_view cfg table rec d v b tn fp o = BOk [Field i om] ->
  o_excluded cfg tn fp = false -> embedded_view cfg v = false ->
  o_custom_type cfg fp = None -> v_custom v = "" ->
  fi_suffix i = "" /\
  fi_kind i =
    match v_type v, o with
    | PMap _ vt, Some f =>
        if view_is_message cfg (view_of_map_value f vt) then ObjectMapKind else PrimitiveMapKind
    | _, _ =>
        if v_is_repeated v then (if view_is_message cfg v then ObjectListKind else PrimitiveListKind)
        else if view_is_message cfg v then ObjectKind else PrimitiveKind
    end.
Proof.
  intros H Hx Hs Hc Hd.
  pose proof (build_view_kind_spec _ _ _ _ _ _ _ _ _ _ _ H Hx Hs) as K.
  destruct (ks_plain _ _ _ _ _ K) as [Hk Hsu]; [apply view_custom_none_iff; auto|].
  split; [exact Hsu|]. rewrite Hk. unfold plain_kind, declared_map, elem_view.
  destruct (v_type v) as [s|n|n| | | |kt vt]; try reflexivity. destruct o; reflexivity.
Qed.
Print Assumptions build_view_plain_kind.

(* time and duration fields are primitives: their kind never says "object" *)
Corollary build_view_time_duration_primitive cfg table rec d v b tn fp o i om :
  build_view cfg table rec d v b tn fp o = BOk [Field i om] ->
  o_excluded cfg tn fp = false ->
  v_is_time v = true \/ v_is_duration cfg v = true ->
  v_is_map v = false ->
  o_custom_type cfg fp = None -> v_custom v = "" ->
  fi_kind i = (if v_is_repeated v then PrimitiveListKind else PrimitiveKind) /\
  fi_zero i = false /\ fi_nullable i = v_star v /\
  (v_is_time v = true -> fi_tk i = KTime /\ fi_cast i = GsTime /\ o_time_type cfg = true) /\
  (v_is_time v = false -> fi_tk i = KDur /\ fi_cast i = GsDuration /\ o_duration_type cfg = true).
Proof.
  intros H Hx Htd Hm Hc Hd.
  assert (Hmsg : view_is_message cfg v = false).
  { destruct Htd; [now apply time_is_not_message|now apply duration_is_not_message]. }
  assert (Hs : embedded_view cfg v = false).
  { unfold embedded_view. unfold view_is_message in Hmsg. now rewrite Hmsg. }
  pose proof (build_view_kind_spec _ _ _ _ _ _ _ _ _ _ _ H Hx Hs) as K.
  assert (Hdm : declared_map v o = false /\ elem_view v o = v).
  { unfold declared_map, elem_view, v_is_map in *. destruct (v_type v); try discriminate; auto. }
  destruct Hdm as [Hdm Hev].
  destruct (ks_plain _ _ _ _ _ K) as [Hk _]; [apply view_custom_none_iff; auto|].
  pose proof (ks_tk _ _ _ _ _ K) as Htk. pose proof (ks_cast _ _ _ _ _ K) as Hca.
  pose proof (ks_nullable _ _ _ _ _ K) as Hn. pose proof (ks_zero _ _ _ _ _ K) as Hz.
  pose proof (ks_mappable _ _ _ _ _ K) as Hmp.
  rewrite Hev in *. unfold plain_kind in Hk. rewrite Hdm, Hmsg in Hk.
  unfold tf_kind in Htk. unfold tf_cast in Hca. unfold tf_zero in Hz. unfold tf_mappable in Hmp.
  split; [exact Hk|]. split.
  { rewrite Hz. destruct Htd as [E|E]; rewrite E; cbn [negb andb]; rewrite ?andb_false_r; reflexivity. }
  split; [exact Hn|]. split.
  - intros E. rewrite E in *. auto.
  - intros E. rewrite E in *. destruct Htd as [E'|E']; [discriminate|]. rewrite E' in *. auto.
Qed.
Print Assumptions build_view_time_duration_primitive.

(* end to end through build_message: every declared field that is neither excluded nor embedded is in the
   message that was built, with its documented names and flags (NamesProofs.declared_field_in_message) and with
   the kind, suffix, element type, cast, nullability and zero literal above *)
Theorem declared_field_kind_in_message cfg table fuel d path m f :
  build_message cfg table (S fuel) d path = BOk m -> In f (md_fields d) ->
  o_excluded cfg (md_name d ++ "." ++ fd_name f) (path ++ "." ++ fd_name f) = false ->
  fd_embed f = false ->
  exists i om, In (Field i om) (m_fields m) /\
    single_field_spec cfg (view_of_field f) false (md_name d ++ "." ++ fd_name f) (path ++ "." ++ fd_name f) i /\
    kind_spec cfg (view_of_field f) (path ++ "." ++ fd_name f) (Some f) i.
Proof.
  intros H Hin Hx He.
  pose proof (build_message_ok_fields _ _ _ _ _ _ H) as F. rewrite Forall_forall in F.
  destruct (F f Hin) as (x & Hv).
  apply build_message_ok_inv in H. destruct H as (l & Hl & Hc).
  pose proof (build_field_list_incl _ _ _ _ _ _ _ _ _ Hl Hin Hv) as I.
  rewrite He in Hv.
  assert (Hne : embedded_view cfg (view_of_field f) = false).
  { unfold embedded_view. cbn [view_of_field v_embed]. rewrite He. apply andb_false_r. }
  destruct (build_view_not_embedded _ _ _ _ _ _ _ _ _ _ Hv Hx Hne) as (i & om & -> & S).
  exists i, om. split; [|split; [exact S|exact (build_view_kind_spec _ _ _ _ _ _ _ _ _ _ _ Hv Hx Hne)]].
  assert (Hil : In (Field i om) l) by (apply I; now left).
  destruct Hc as [(E & _)|(_ & Em & _)]; [subst l; destruct Hil|].
  rewrite Em. destruct (o_sort cfg); [now apply FrontEndProofs.sort_by_perm_in|assumption].
Qed.
Print Assumptions declared_field_kind_in_message.

(* ------------------------------------------------------------------------------------- *)
(* E. C17: a field the configuration declares custom is a custom field, cast type or not *)

Theorem C17_custom_by_configuration cfg table rec d v b tn fp o i om t :
  o_custom_type cfg fp = Some t ->
  build_view cfg table rec d v b tn fp o = BOk [Field i om] ->
  o_excluded cfg tn fp = false ->
  embedded_view cfg v = false ->
  fi_kind i = CustomKind /\
  fi_suffix i = (match o_suffix cfg t with Some s => s | None => default_suffix t end).
Proof.
  intros Hc H Hx Hs.
  apply (ks_custom _ _ _ _ _ (build_view_kind_spec _ _ _ _ _ _ _ _ _ _ _ H Hx Hs)).
  unfold view_custom. now rewrite Hc.
Qed.
Print Assumptions C17_custom_by_configuration.

(* the regression R1 *)
Theorem C17_custom_over_cast cfg table rec d v b tn fp o i om t :
  v_cast v <> "" ->
  o_custom_type cfg fp = Some t ->
  build_view cfg table rec d v b tn fp o = BOk [Field i om] ->
  o_excluded cfg tn fp = false ->
  embedded_view cfg v = false ->
  fi_kind i = CustomKind /\
  fi_suffix i = (match o_suffix cfg t with Some s => s | None => default_suffix t end).
Proof. intros _. apply C17_custom_by_configuration. Qed.
Print Assumptions C17_custom_over_cast.

(* for a configuration as read: custom_types is keyed by the field path (the Message.Field form is not a key) *)
Theorem C17_custom_by_configuration_cfg c table rec d v b tn fp o i om t :
  lookup fp (c_custom_types c) = Some t ->
  build_view (obs_of c) table rec d v b tn fp o = BOk [Field i om] ->
  flag (c_exclude c) tn fp = false ->
  embedded_view (obs_of c) v = false ->
  fi_kind i = CustomKind /\
  fi_suffix i = (match lookup t (c_suffixes c) with Some s => s | None => default_suffix t end).
Proof. intros Hc. apply (C17_custom_by_configuration (obs_of c)). exact Hc. Qed.
Print Assumptions C17_custom_by_configuration_cfg.

(* gogoproto.customtype alone, with a cast type or not, when the configuration is silent *)
Theorem C17_custom_by_descriptor cfg table rec d v b tn fp o i om :
  o_custom_type cfg fp = None -> v_custom v <> "" ->
  build_view cfg table rec d v b tn fp o = BOk [Field i om] ->
  o_excluded cfg tn fp = false ->
  embedded_view cfg v = false ->
  fi_kind i = CustomKind /\
  fi_suffix i = (match o_suffix cfg (v_custom v) with Some s => s | None => default_suffix (v_custom v) end).
Proof.
  intros Hc Hd H Hx Hs.
  apply (ks_custom _ _ _ _ _ (build_view_kind_spec _ _ _ _ _ _ _ _ _ _ _ H Hx Hs)).
  apply view_custom_some_iff. right. auto.
Qed.
Print Assumptions C17_custom_by_descriptor.

(* and such a field does build: a scalar or enum field with a cast type that names neither time nor duration
   always yields its one field, custom when the configuration says so *)
Theorem C17_cast_custom_builds cfg table rec d v b tn fp o t :
  o_custom_type cfg fp = Some t ->
  o_excluded cfg tn fp = false ->
  v_is_time v = false -> v_is_duration cfg v = false ->
  (exists s, v_type v = PScalar s) \/ (exists n, v_type v = PEnum n) ->
  exists i, build_view cfg table rec d v b tn fp o = BOk [Field i None] /\
            fi_kind i = CustomKind /\
            fi_suffix i = (match o_suffix cfg t with Some s => s | None => default_suffix t end).
Proof.
  intros Hc Hx Ht Hd Hty.
  assert (Hmp : tf_mappable cfg v = true).
  { unfold tf_mappable. rewrite Ht, Hd. destruct Hty as [[s ->]|[n ->]]; reflexivity. }
  assert (Hmsg : view_is_message cfg v = false).
  { unfold view_is_message. destruct Hty as [[s ->]|[n ->]]; apply andb_false_r. }
  assert (Hmap : v_is_map v = false).
  { unfold v_is_map. destruct Hty as [[s ->]|[n ->]]; reflexivity. }
  destruct (build_view_prim_ok cfg table rec d v b tn fp o (tf_kind cfg v) (tf_cast cfg v) (tf_zero cfg v) Hx)
    as [i Hi]; [|exact Hmap|].
  { rewrite <- Hmsg. apply terraform_type_ok_iff. auto. }
  exists i. split; [exact Hi|].
  eapply C17_custom_by_configuration; [exact Hc|exact Hi|exact Hx|].
  unfold embedded_view. unfold view_is_message in Hmsg. now rewrite Hmsg.
Qed.
Print Assumptions C17_cast_custom_builds.

(* R1 at the level of the generated type: a declared field with a custom_types entry for its path is in the
   message, under its Go name, as a custom field with the suffix of the configured type -- with no hypothesis on
   its cast type, cardinality or proto type *)
Theorem C17_custom_in_message cfg table fuel d path m f t :
  build_message cfg table (S fuel) d path = BOk m -> In f (md_fields d) ->
  o_excluded cfg (md_name d ++ "." ++ fd_name f) (path ++ "." ++ fd_name f) = false ->
  fd_embed f = false ->
  o_custom_type cfg (path ++ "." ++ fd_name f) = Some t ->
  exists i om, In (Field i om) (m_fields m) /\
    fi_name i = go_name (fd_name f) /\ fi_path i = path ++ "." ++ fd_name f /\
    fi_kind i = CustomKind /\
    fi_suffix i = (match o_suffix cfg t with Some s => s | None => default_suffix t end).
Proof.
  intros H Hin Hx He Hc.
  destruct (declared_field_kind_in_message _ _ _ _ _ _ _ H Hin Hx He) as (i & om & Hi & S & K).
  exists i, om. split; [exact Hi|]. destruct S as (Sn & Sp & _).
  split; [exact Sn|]. split; [exact Sp|].
  apply (ks_custom _ _ _ _ _ K). unfold view_custom. now rewrite Hc.
Qed.
Print Assumptions C17_custom_in_message.

(* ------------------------------------------------------------------------------------- *)
(* F. C18: an integer cast to a duration type without duration_type *)

(* the cast type names a duration: the configured custom duration type, or time.Duration *)
Definition cast_names_duration (cfg : cfg_obs) (v : fview) : Prop :=
  (o_duration_custom_type cfg <> "" /\ v_cast v = o_duration_custom_type cfg) \/ v_cast v = "time.Duration".

Lemma cast_names_duration_is_duration cfg v : cast_names_duration cfg v -> v_is_duration cfg v = true.
Proof.
  unfold v_is_duration. intros [[N E]|E].
  - rewrite E, String.eqb_refl. apply String.eqb_neq in N. rewrite N. cbn [negb andb]. apply orb_true_r.
  - rewrite E. cbn [String.eqb Ascii.eqb Bool.eqb]. rewrite orb_true_r. reflexivity.
Qed.

(* the regression R2: whatever the proto type of the field (an int64 in particular), the cast type alone makes it
   a duration, and a duration without duration_type is an error *)
Theorem C18_cast_duration_without_type cfg table rec d v b tn fp o :
  o_excluded cfg tn fp = false ->
  v_is_time v = false ->
  o_duration_type cfg = false ->
  cast_names_duration cfg v ->
  exists e, build_view cfg table rec d v b tn fp o = BErr e.
Proof.
  intros Hx Ht Hc Hd. apply build_view_duration_without_type; auto.
  now apply cast_names_duration_is_duration.
Qed.
Print Assumptions C18_cast_duration_without_type.

(* the error is the documented one *)
Lemma C18_cast_duration_error_text cfg table rec d v b tn fp o :
  o_excluded cfg tn fp = false -> v_is_time v = false -> o_duration_type cfg = false ->
  cast_names_duration cfg v ->
  build_view cfg table rec d v b tn fp o
  = BErr (fp ++ " field has duration type, but config.duration_type is not defined").
Proof.
  intros Hx Ht Hc Hd. apply cast_names_duration_is_duration in Hd.
  unfold build_view, terraform_type. rewrite Hx, Ht, Hd, Hc. reflexivity.
Qed.
Print Assumptions C18_cast_duration_error_text.

(* a declared integer field: the time test only looks at stdtime and at the cast type *)
Lemma int_field_not_time f s :
  fd_type f = PScalar s -> fd_stdtime f = false -> fd_cast f <> "time.Time" ->
  v_is_time (view_of_field f) = false.
Proof.
  intros Ety Est N. unfold v_is_time. cbn [view_of_field v_stdtime v_type v_cast].
  rewrite Ety, Est. apply String.eqb_neq in N. rewrite N. reflexivity.
Qed.

(* the message that declares such a field does not build *)
Theorem C18_cast_duration_message cfg table fuel d path f :
  In f (md_fields d) ->
  o_excluded cfg (md_name d ++ "." ++ fd_name f) (if fd_embed f then path else path ++ "." ++ fd_name f) = false ->
  v_is_time (view_of_field f) = false ->
  o_duration_type cfg = false ->
  cast_names_duration cfg (view_of_field f) ->
  forall m, build_message cfg table (S fuel) d path <> BOk m.
Proof.
  intros Hin Hx Ht Hc Hd.
  destruct (C18_cast_duration_without_type cfg table (build_message cfg table fuel) d (view_of_field f) false
              _ _ (Some f) Hx Ht Hc Hd) as [e He].
  eapply C18_no_partial_type; eassumption.
Qed.
Print Assumptions C18_cast_duration_message.

(* the int64 instance, in the words of the descriptor *)
Corollary C18_int64_cast_duration_message cfg table fuel d path f :
  In f (md_fields d) ->
  o_excluded cfg (md_name d ++ "." ++ fd_name f) (if fd_embed f then path else path ++ "." ++ fd_name f) = false ->
  fd_type f = PScalar SInt64 -> fd_stdtime f = false ->
  o_duration_type cfg = false ->
  (o_duration_custom_type cfg <> "" /\ o_duration_custom_type cfg <> "time.Time" /\
   fd_cast f = o_duration_custom_type cfg) \/ fd_cast f = "time.Duration" ->
  forall m, build_message cfg table (S fuel) d path <> BOk m.
Proof.
  intros Hin Hx Ety Est Hc Hd.
  apply (C18_cast_duration_message cfg table fuel d path f Hin Hx); [|exact Hc|].
  - apply (int_field_not_time f SInt64 Ety Est).
    destruct Hd as [(_ & N & ->)| -> ]; [exact N|discriminate].
  - unfold cast_names_duration. cbn [view_of_field v_cast].
    destruct Hd as [(N & _ & E)|E]; auto.
Qed.
Print Assumptions C18_int64_cast_duration_message.

(* nothing partial is emitted: a selected type declaring such a field is not among the generated roots (the
   message is the only one of its name, as in any descriptor set), and it is reported as skipped *)
Theorem C18_cast_duration_root c file d f :
  In d (all_msgs file) ->
  (forall d', In d' (all_msgs file) -> md_name d' = md_name d -> d' = d) ->
  In f (md_fields d) ->
  flag (c_exclude c) (md_name d ++ "." ++ fd_name f)
       (if fd_embed f then md_name d else md_name d ++ "." ++ fd_name f) = false ->
  v_is_time (view_of_field f) = false ->
  c_duration_type c = false ->
  cast_names_duration (obs_of c) (view_of_field f) ->
  forall m, ~ In (md_name d, m) (ok_roots c file).
Proof.
  intros Hd Hu Hin Hx Ht Hc Hcd m Hm.
  apply C12_selected in Hm. destruct Hm as (_ & d' & Hd' & En & Hb).
  assert (d' = d) by (apply Hu; assumption). subst d'.
  revert Hb. apply (C18_cast_duration_message (obs_of c) _ _ d (md_name d) f Hin Hx Ht Hc Hcd).
Qed.
Print Assumptions C18_cast_duration_root.

Theorem C18_cast_duration_root_skipped c file d f :
  In d (all_msgs file) ->
  mem_str (md_name d) (c_types c) = true ->
  In f (md_fields d) ->
  flag (c_exclude c) (md_name d ++ "." ++ fd_name f)
       (if fd_embed f then md_name d else md_name d ++ "." ++ fd_name f) = false ->
  v_is_time (view_of_field f) = false ->
  c_duration_type c = false ->
  cast_names_duration (obs_of c) (view_of_field f) ->
  In (md_name d)
     (flat_map (fun p => match snd p with BOk _ => [] | _ => [fst p] end) (build_roots c file)).
Proof.
  intros Hd Hsel Hin Hx Ht Hc Hcd.
  apply in_flat_map.
  exists (md_name d, build_message (obs_of c) (all_msgs file) (S (List.length (all_msgs file))) d (md_name d)).
  split.
  - unfold build_roots. apply in_flat_map. exists d. split; [exact Hd|]. rewrite Hsel. now left.
  - cbn [fst snd].
    pose proof (C18_cast_duration_message (obs_of c) (all_msgs file) (List.length (all_msgs file)) d (md_name d) f
                  Hin Hx Ht Hc Hcd) as Hn.
    destruct (build_message (obs_of c) (all_msgs file) (S (List.length (all_msgs file))) d (md_name d)) as [m|e|];
      [exfalso; now apply (Hn m)|now left|now left].
Qed.
Print Assumptions C18_cast_duration_root_skipped.

(* the dual: with duration_type the same field is a duration primitive, cast from time.Duration, and not an
   int64.  Nothing is asked of the proto type but not to be a map: the cast type alone decides. *)
Theorem C18_cast_duration_with_type cfg table rec d v b tn fp o :
  o_excluded cfg tn fp = false ->
  v_is_time v = false ->
  o_duration_type cfg = true ->
  cast_names_duration cfg v ->
  v_is_map v = false ->
  exists i, build_view cfg table rec d v b tn fp o = BOk [Field i None] /\
            fi_tk i = KDur /\ fi_cast i = GsDuration /\ fi_tk i <> KI64 /\
            fi_zero i = false /\ fi_nullable i = v_star v /\
            (o_custom_type cfg fp = None -> v_custom v = "" ->
             fi_kind i = if v_is_repeated v then PrimitiveListKind else PrimitiveKind).
Proof.
  intros Hx Ht Hc Hcd Hm. apply cast_names_duration_is_duration in Hcd.
  assert (Et : terraform_type cfg v fp = BOk (false, KDur, GsDuration, false)).
  { unfold terraform_type. now rewrite Ht, Hcd, Hc. }
  destruct (build_view_prim_ok cfg table rec d v b tn fp o _ _ _ Hx Et Hm) as [i Hi].
  exists i. split; [exact Hi|].
  assert (Hmsg : view_is_message cfg v = false) by now apply duration_is_not_message.
  assert (Hs : embedded_view cfg v = false).
  { unfold embedded_view. unfold view_is_message in Hmsg. now rewrite Hmsg. }
  pose proof (build_view_kind_spec _ _ _ _ _ _ _ _ _ _ _ Hi Hx Hs) as K.
  assert (Hdm : declared_map v o = false /\ elem_view v o = v).
  { unfold declared_map, elem_view, v_is_map in *. destruct (v_type v); try discriminate; auto. }
  destruct Hdm as [Hdm Hev].
  pose proof (ks_tk _ _ _ _ _ K) as Htk. pose proof (ks_cast _ _ _ _ _ K) as Hca.
  pose proof (ks_nullable _ _ _ _ _ K) as Hn. pose proof (ks_zero _ _ _ _ _ K) as Hz.
  rewrite Hev in *. unfold tf_kind in Htk. unfold tf_cast in Hca. unfold tf_zero in Hz.
  rewrite Ht, Hcd in *. cbn [negb andb] in Hz. rewrite andb_false_r in Hz.
  split; [exact Htk|]. split; [exact Hca|]. split; [rewrite Htk; discriminate|].
  split; [exact Hz|]. split; [exact Hn|].
  intros Hcu Hcd'. destruct (ks_plain _ _ _ _ _ K) as [Hk _]; [apply view_custom_none_iff; auto|].
  rewrite Hk. unfold plain_kind. now rewrite Hdm, Hmsg.
Qed.
Print Assumptions C18_cast_duration_with_type.

(* ------------------------------------------------------------------------------------- *)
(* G. C18 / C11: exclusion is asked before the type *)

Theorem C18_exclusion_beats_type_error cfg table rec d v b tn fp o :
  o_excluded cfg tn fp = true ->
  build_view cfg table rec d v b tn fp o = BOk [].
Proof. apply build_view_excluded. Qed.
Print Assumptions C18_exclusion_beats_type_error.

(* in particular for the field of C18_cast_duration_without_type: excluded, it is no error *)
Corollary C18_excluded_cast_duration cfg table rec d v b tn fp o :
  o_excluded cfg tn fp = true ->
  v_is_time v = false -> o_duration_type cfg = false -> cast_names_duration cfg v ->
  build_view cfg table rec d v b tn fp o = BOk [] /\
  forall e, build_view cfg table rec d v b tn fp o <> BErr e.
Proof.
  intros Hx _ _ _. rewrite (build_view_excluded _ _ _ _ _ _ _ _ _ Hx). split; [reflexivity|discriminate].
Qed.
Print Assumptions C18_excluded_cast_duration.

(* ------------------------------------------------------------------------------------- *)
(* H. non-vacuity *)

Module KindExamples.
  Definition mkcfg (custom : list (string * string)) (suffixes : list (string * string))
             (excl : list string) (dur : bool) (durt : string) : config :=
    {| c_types := ["Out"]; c_duration_custom_type := durt; c_exclude := excl; c_computed := []; c_required := [];
       c_sensitive := []; c_target_pkg := ""; c_default_pkg := ""; c_sort := false; c_use_state := false;
       c_suffixes := suffixes; c_name_overrides := []; c_validators := []; c_planmods := [];
       c_time_type := false; c_duration_type := dur; c_injected := []; c_import_overrides := [];
       c_custom_types := custom |}.

  Definition fd (name : string) (t : ptype) (rep : bool) (cast cust : string) : fdesc :=
    {| fd_name := name; fd_num := 1%Z; fd_type := t; fd_repeated := rep; fd_nullable := None; fd_embed := false;
       fd_cast := cast; fd_custom := cust; fd_stdtime := false; fd_stddur := false; fd_jsontag := None;
       fd_oneof := None; fd_comment := "" |}.

  Definition str := PScalar SString.
  Definition i64 := PScalar SInt64.

  Definition msg (fs : list fdesc) : mdesc :=
    {| md_name := "Out"; md_comment := ""; md_oneofs := []; md_fields := fs |}.
  Definition file_of (fs : list fdesc) : file :=
    {| f_name := "out.proto"; f_package := "p"; f_gopkg := "p"; f_enums := []; f_msgs := [msg fs]; f_deps := [] |}.

  (* (kind, suffix, element type, cast, nullable, zero) of the one field built for [f] *)
  Definition run (c : config) (f : fdesc)
    : option (kind * string * tfkind * goscalar * bool * bool) :=
    let cfg := obs_of c in
    let d := msg [f] in
    match build_view cfg [d] (build_message cfg [d] 2) d (view_of_field f) false
                     ("Out." ++ fd_name f) ("Out." ++ fd_name f) (Some f) with
    | BOk [Field i _] => Some (fi_kind i, fi_suffix i, fi_tk i, fi_cast i, fi_nullable i, fi_zero i)
    | _ => None
    end.

  Definition failed (c : config) (f : fdesc) : bool :=
    let cfg := obs_of c in
    let d := msg [f] in
    match build_view cfg [d] (build_message cfg [d] 2) d (view_of_field f) false
                     ("Out." ++ fd_name f) ("Out." ++ fd_name f) (Some f) with
    | BErr _ => true
    | _ => false
    end.

  (* R1: a string field with a cast type, declared custom by the configuration, with a configured suffix *)
  Definition cast_str : fdesc := fd "role" str false "example.com/types.Role" "".

  Example custom_over_cast_hyps :
    let c := mkcfg [("Out.role", "example.com/types.Role")] [("example.com/types.Role", "RoleT")] [] false "" in
    v_cast (view_of_field cast_str) <> "" /\
    o_custom_type (obs_of c) "Out.role" = Some "example.com/types.Role" /\
    o_excluded (obs_of c) "Out.role" "Out.role" = false /\
    embedded_view (obs_of c) (view_of_field cast_str) = false.
  Proof. cbv zeta. split; [discriminate|]. vm_compute. auto. Qed.

  Example custom_over_cast :
    run (mkcfg [("Out.role", "example.com/types.Role")] [("example.com/types.Role", "RoleT")] [] false "") cast_str
    = Some (CustomKind, "RoleT", KStr, GsString, false, true).
  Proof. vm_compute. reflexivity. Qed.

  (* without a configured suffix: the type name without "/" and "." *)
  Example custom_over_cast_default_suffix :
    run (mkcfg [("Out.role", "example.com/types.Role")] [] [] false "") cast_str
    = Some (CustomKind, "examplecomtypesRole", KStr, GsString, false, true).
  Proof. vm_compute. reflexivity. Qed.

  (* without the configuration entry the same field is a plain string *)
  Example cast_not_custom :
    run (mkcfg [] [] [] false "") cast_str = Some (PrimitiveKind, "", KStr, GsString, false, true).
  Proof. vm_compute. reflexivity. Qed.

  (* the configuration wins over gogoproto.customtype; repeated, cast or message: custom all the same *)
  Example cfg_over_descriptor :
    run (mkcfg [("Out.x", "A.T")] [("A.T", "FromCfg"); ("B.U", "FromDesc")] [] false "")
        (fd "x" str true "C.Cast" "B.U")
    = Some (CustomKind, "FromCfg", KStr, GsString, false, true).
  Proof. vm_compute. reflexivity. Qed.

  Example descriptor_alone :
    run (mkcfg [] [("A.T", "FromCfg"); ("B.U", "FromDesc")] [] false "") (fd "x" str true "C.Cast" "B.U")
    = Some (CustomKind, "FromDesc", KStr, GsString, false, true).
  Proof. vm_compute. reflexivity. Qed.

  (* a map declared custom: the kind is custom, the element attributes are still those of the map value *)
  Example custom_map_of_strings :
    run (mkcfg [("Out.m", "A.T")] [] [] false "") (fd "m" (PMap str str) false "" "")
    = Some (CustomKind, "AT", KStr, GsString, false, false).
  Proof. vm_compute. reflexivity. Qed.

  (* custom_types is keyed by the field path only: the Message.Field form (In.x), which the flags and the name
     overrides accept, is not a key *)
  Definition inner : mdesc :=
    {| md_name := "In"; md_comment := ""; md_oneofs := []; md_fields := [fd "x" str false "C.Cast" ""] |}.
  Definition outer : mdesc :=
    {| md_name := "Out"; md_comment := ""; md_oneofs := []; md_fields := [fd "inner" (PMsg "In") false "" ""] |}.
  Definition nested_kind (c : config) : option (string * kind * string) :=
    match build_message (obs_of c) [inner; outer] 3 outer "Out" with
    | BOk (Msg _ [Field _ (Some (Msg _ [Field i _] _ _ _ _))] _ _ _ _) => Some (fi_path i, fi_kind i, fi_suffix i)
    | _ => None
    end.

  Example custom_by_path : nested_kind (mkcfg [("Out.inner.x", "A.T")] [] [] false "") = Some ("Out.inner.x", CustomKind, "AT").
  Proof. vm_compute. reflexivity. Qed.

  Example custom_not_by_type_name : nested_kind (mkcfg [("In.x", "A.T")] [] [] false "") = Some ("Out.inner.x", PrimitiveKind, "").
  Proof. vm_compute. reflexivity. Qed.

  (* R2: an int64 cast to the custom duration type / to time.Duration *)
  Definition cast_dur : fdesc := fd "ttl" i64 false "Duration" "".
  Definition cast_std_dur : fdesc := fd "ttl" i64 false "time.Duration" "".

  Example cast_duration_hyps :
    let c := mkcfg [] [] [] false "Duration" in
    o_excluded (obs_of c) "Out.ttl" "Out.ttl" = false /\
    v_is_time (view_of_field cast_dur) = false /\
    o_duration_type (obs_of c) = false /\
    cast_names_duration (obs_of c) (view_of_field cast_dur) /\
    cast_names_duration (obs_of c) (view_of_field cast_std_dur).
  Proof.
    cbv zeta. repeat split; try reflexivity.
    - left. split; [discriminate|reflexivity].
    - right. reflexivity.
  Qed.

  Example cast_duration_fails : failed (mkcfg [] [] [] false "Duration") cast_dur = true.
  Proof. vm_compute. reflexivity. Qed.

  Example cast_std_duration_fails : failed (mkcfg [] [] [] false "") cast_std_dur = true.
  Proof. vm_compute. reflexivity. Qed.

  (* the whole type fails, next to a perfectly mappable field: nothing partial *)
  Example cast_duration_type_skipped :
    let c := mkcfg [] [] [] false "Duration" in
    let f := file_of [fd "name" str false "" ""; cast_dur] in
    ok_roots c f = [] /\
    map (fun p => match snd p with BOk _ => (fst p, true) | _ => (fst p, false) end) (build_roots c f)
    = [("Out", false)].
  Proof. vm_compute. auto. Qed.

  (* without the cast (or with a cast that does not name a duration) the int64 is an int64 *)
  Example plain_int64 :
    run (mkcfg [] [] [] false "Duration") (fd "ttl" i64 false "Other" "")
    = Some (PrimitiveKind, "", KI64, GsInt64, false, true).
  Proof. vm_compute. reflexivity. Qed.

  (* the dual: with duration_type it is a duration, not an int64 *)
  Example cast_duration_with_type :
    run (mkcfg [] [] [] true "Duration") cast_dur = Some (PrimitiveKind, "", KDur, GsDuration, false, false).
  Proof. vm_compute. reflexivity. Qed.

  Example cast_std_duration_with_type :
    run (mkcfg [] [] [] true "") cast_std_dur = Some (PrimitiveKind, "", KDur, GsDuration, false, false).
  Proof. vm_compute. reflexivity. Qed.

  Example cast_duration_list_with_type :
    run (mkcfg [] [] [] true "Duration") (fd "ttl" i64 true "Duration" "")
    = Some (PrimitiveListKind, "", KDur, GsDuration, false, false).
  Proof. vm_compute. reflexivity. Qed.

  (* exclusion beats the type error, by either key form *)
  Example excluded_cast_duration :
    let c := mkcfg [] [] ["Out.ttl"] false "Duration" in
    let d := msg [fd "name" str false "" ""; cast_dur] in
    build_view (obs_of c) [d] (build_message (obs_of c) [d] 2) d (view_of_field cast_dur) false
               "Out.ttl" "Out.ttl" (Some cast_dur) = BOk [] /\
    match ok_roots c (file_of [fd "name" str false "" ""; cast_dur]) with
    | [(n, m)] => Some (n, map (fun x => fi_name (f_info x)) (m_fields m))
    | _ => None
    end = Some ("Out", ["Name"]).
  Proof. vm_compute. auto. Qed.

  (* a map view without its declared field falls through setMapValues (KindLink.t_map_no_orig): this is why
     plain_kind and elem_view look at the declared field, and not at the type alone *)
  Example map_without_declared_field :
    let c := obs_of (mkcfg [] [] [] false "") in
    let f := fd "m" (PMap str str) false "" "" in
    plain_kind c (view_of_field f) None = ObjectKind /\
    plain_kind c (view_of_field f) (Some f) = PrimitiveMapKind.
  Proof. vm_compute. auto. Qed.
End KindExamples.
