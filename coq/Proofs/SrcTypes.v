(* [type table] Agreement between the tables regenerated from the Go sources on every run (Generated/Src.v, written by
   `vh translate`) and the hand-written model. Every statement is closed by computation over a finite
   domain (the fifteen proto scalar types, the nine command-line options, the configuration keys), so a
   change of a row in the source breaks the proof at once. *)
From Coq Require Import List String Ascii Bool NArith.
From PGT Require Import Base.Strs Base.AList Model.Vals Model.Desc Model.Build Model.GoTypes.
From PGT Require Import Proofs.CopyToTotal.
From PGT Require Import Generated.Src.
Import ListNotations.
Open Scope string_scope.

(* ---- 1. GetTerraformType: the row of every proto scalar type -------------------------------- *)

Definition proto_name (s : scalar) : string :=
  match s with
  | SDouble => "DOUBLE" | SFloat => "FLOAT" | SInt32 => "INT32" | SInt64 => "INT64"
  | SUint32 => "UINT32" | SUint64 => "UINT64" | SSint32 => "SINT32" | SSint64 => "SINT64"
  | SFixed32 => "FIXED32" | SFixed64 => "FIXED64" | SSfixed32 => "SFIXED32" | SSfixed64 => "SFIXED64"
  | SBool => "BOOL" | SString => "STRING" | SBytes => "BYTES"
  end.

(* what the documentation (README type table) says about a Terraform kind *)
Definition kind_type_name (k : tfkind) : string :=
  match k with KI64 => "Int64Type" | KF64 => "Float64Type" | KStr => "StringType" | KBool => "BoolType"
             | KTime => "TimeType" | KDur => "DurationType" end.
Definition kind_value_name (k : tfkind) : string :=
  match k with KI64 => "Int64" | KF64 => "Float64" | KStr => "String" | KBool => "Bool"
             | KTime => "TimeValue" | KDur => "DurationValue" end.
Definition kind_cast_to (k : tfkind) : string :=
  match k with KI64 => "int64" | KF64 => "float64" | KStr => "string" | KBool => "bool" | _ => "" end.
Definition kind_zero_lit (k : tfkind) : string :=
  match k with KI64 | KF64 => "0" | KStr => """""" | KBool => "false" | _ => "" end.
Definition goscalar_go_name (g : goscalar) : string :=
  match g with
  | GsInt32 => "int32" | GsInt64 => "int64" | GsUint32 => "uint32" | GsUint64 => "uint64"
  | GsFloat32 => "float32" | GsFloat64 => "float64" | GsBool => "bool" | GsString => "string"
  | GsBytes => "[]byte" | GsEnum => "<elemType>" | GsTime => "" | GsDuration => ""
  end.

Definition find_row (n : string) : option (string * string) :=
  match find (fun r => String.eqb (fst (fst r)) n) src_type_rows with
  | Some (_, base, cast) => Some (base, cast)
  | None => None
  end.

Definition base_ok (base : string) (k : tfkind) : bool :=
  match lookup base src_base_types with
  | Some (ty, vty, ety, evty, castto, zero) =>
      String.eqb ty (kind_type_name k) && String.eqb vty (kind_value_name k)
      && String.eqb ety (kind_type_name k) && String.eqb evty (kind_value_name k)
      && String.eqb castto (kind_cast_to k) && String.eqb zero (kind_zero_lit k)
  | None => false
  end.

Definition row_ok (s : scalar) : bool :=
  match find_row (proto_name s) with
  | Some (base, cast) =>
      let '(k, g) := scalar_info s in base_ok base k && String.eqb cast (goscalar_go_name g)
  | None => false
  end.

(* for every proto scalar type, the row of GetTerraformType in the CURRENT source gives the attribute
   type, value type, element types, cast-to type, zero literal and cast-from type the model uses *)
Theorem src_type_table_agrees : forall s, row_ok s = true.
Proof. destruct s; vm_compute; reflexivity. Qed.

(* each proto type constant occurs in exactly one row (the switch takes the first match) *)
Theorem src_type_rows_unique : NoDup (map (fun r => fst (fst r)) src_type_rows).
Proof. apply nodup_b_NoDup. vm_compute. reflexivity. Qed.

(* enums, messages, time and duration, and the error for anything else *)
Theorem src_type_special_agrees :
  find_row "ENUM" = Some ("int64Type", goscalar_go_name GsEnum) /\ base_ok "int64Type" KI64 = true /\
  src_type_special = [("time", "<config>"); ("duration", "<config>"); ("message", "objectType+IsMessage"); ("default", "error")].
Proof. vm_compute. repeat split; reflexivity. Qed.

