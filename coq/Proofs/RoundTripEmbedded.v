(* C04 at the level of the message for messages with fields promoted from nullable (pointer) embedded
   messages: CopyTo into the empty object of the schema's type, then CopyFrom into the zero value of
   the struct, returns the value up to the normal form [nfe_equiv], which extends nf_equiv
   (MsgRoundTrip) to the embedded pointers:
     an embedded pointer which is nil and one which points to a struct all of whose promoted fields
     are absent (zero scalar, nil pointer, nil or empty list or map, nil nullable message, a by-value
     message equivalent to its zero value) are identified.
   The class [rte_ok_gen K]: ordinary fields as in rt_ok (MsgRoundTrip), plus fields promoted
   through exactly one pointer (fi_via = [p], fi_parent = Some (p, z), fi_inner = []) of the kinds K
   allows; the nested messages are rt_ok.  Stages: rte1_ok (promoted value scalars with a zero
   literal), rte2_ok (all scalars, lists and maps of scalars), rte_ok (all six kinds).

   Method: a promoted field whose embedded pointer is set to the struct ps behaves, in CopyTo, as the
   ordinary field [strip i] (fi_via := [], fi_parent := None) on ps (to_field_strip); the per-field
   round trip of MsgRoundTrip (field_step) then applies to the stripped field.  In CopyFrom the
   promoted field writes what the stripped field writes into the embedded struct, after allocation,
   when its attribute is known and not null (from_promoted_alloc) and leaves the target alone otherwise
   (from_promoted_null). *)
From Coq Require Import List String Bool ZArith Lia.
From Coq Require Import Floats.SpecFloat.
From PGT Require Import Base.Strs Base.AList Model.Vals Model.IR Model.CopyTo Model.CopyFrom.
From PGT Require Import Proofs.Ints Proofs.Floats Proofs.CopyToProofs Proofs.CopyFromProofs.
From PGT Require Import Proofs.RoundTripProofs Proofs.CopyToTotal Proofs.MsgRoundTrip Proofs.EmbeddedProofs.
Import ListNotations.

(* ------------------------------------------------------------------------------------- *)
(* 1. the ordinary field a promoted field stands for inside the embedded struct *)

Definition strip (i : finfo) : finfo :=
  {| fi_name := fi_name i; fi_snake := fi_snake i; fi_path := fi_path i; fi_kind := fi_kind i;
     fi_tk := fi_tk i; fi_cast := fi_cast i; fi_nullable := fi_nullable i; fi_zero := fi_zero i;
     fi_placeholder := fi_placeholder i; fi_oneof := fi_oneof i; fi_via := []; fi_parent := None;
     fi_inner := []; fi_required := fi_required i; fi_computed := fi_computed i;
     fi_sensitive := fi_sensitive i; fi_validators := fi_validators i; fi_planmods := fi_planmods i;
     fi_comment := fi_comment i; fi_suffix := fi_suffix i |}.

Definition strip_f (f : field) : field := Field (strip (f_info f)) (f_msg f).

Definition by_value (i : finfo) : bool :=
  match fi_kind i with ObjectKind => negb (fi_nullable i) | _ => false end.

Lemma fold_left_ext {A B} (f g : A -> B -> A) l : (forall a b, f a b = g a b) ->
  forall a, fold_left f l a = fold_left g l a.
Proof. intros H. induction l as [|b r IH]; intros a; cbn [fold_left]; [reflexivity|]. now rewrite H, IH. Qed.

(* a message without fields is copied without reading the struct *)
Lemma to_prim_value_ph i rd rd' obj obj' t cur ds :
  fi_placeholder i = true -> to_prim_value i rd obj t cur ds = to_prim_value i rd' obj' t cur ds.
Proof. intros PH. unfold to_prim_value. rewrite PH. reflexivity. Qed.

Lemma to_fields_empty_indep hook m' o1 o2 atys st :
  tf_ok m' = true -> m_empty m' = true -> to_fields hook m' o1 atys st = to_fields hook m' o2 atys st.
Proof.
  destruct m' as [n fs os inj e z]. rewrite tf_ok_eq. cbn [m_empty]. intros T ->.
  apply andb_prop in T. destruct T as [T T3]. apply andb_prop in T. destruct T as [_ T2].
  cbn [negb orb] in T2. rewrite forallb_forall in T2, T3. rewrite !to_fields_list.
  revert st. induction fs as [|f r IH]; intros st; cbn [to_field_list]; [reflexivity|].
  assert (E : to_field hook f o1 atys st = to_field hook f o2 atys st).
  { destruct f as [i om]. destruct st as [attrs ds].
    pose proof (T2 _ (or_introl eq_refl)) as PH. pose proof (T3 _ (or_introl eq_refl)) as F.
    cbn [f_info ftf_ok] in PH, F. apply andb_prop in F. destruct F as [F _].
    destruct (finfo_ok_inv _ _ F) as (_ & _ & _ & _ & _ & _ & HP). destruct (HP PH) as [K O].
    rewrite !to_field_eq. cbv zeta. rewrite K, O.
    destruct (lookup (fi_snake i) atys); [|reflexivity]. cbn [bind].
    now rewrite (to_prim_value_ph i _ (read_field i (zero_of_prim i) o2) o1 o2). }
  rewrite E. destruct (to_field hook f o2 atys st); cbn [bind]; [|reflexivity].
  apply IH; intros f0 Hf0; [apply T2|apply T3]; now right.
Qed.

Section Strip.
  Variables (i : finfo) (p : string) (z : goval).
  Hypothesis V : fi_via i = [p].
  Hypothesis P : fi_parent i = Some (p, z).
  Hypothesis IN : fi_inner i = [].
  Hypothesis O : fi_oneof i = None.

  Lemma to_prim_value_strip rd obj obj' t cur ds :
    parent_is_nil i obj = Ok (Some false) ->
    to_prim_value i rd obj t cur ds = to_prim_value (strip i) rd obj' t cur ds.
  Proof.
    intros PN. unfold to_prim_value. cbn [strip fi_tk fi_path fi_placeholder fi_zero fi_oneof fi_nullable].
    rewrite O, PN. unfold parent_is_nil. cbn [strip fi_parent]. reflexivity.
  Qed.

  Lemma obj_value_strip hook obj obj' cur m' rd ats ds :
    tf_ok m' = true ->
    obj_value hook i obj cur m' rd ats ds = obj_value hook (strip i) obj' cur m' rd ats ds.
  Proof.
    intros T. unfold obj_value. cbn [strip fi_nullable].
    destruct (match cur with Some (VObj a n u at0) => _ | _ => _ end) as [[oatys n0] attrs0].
    destruct (m_empty m') eqn:E; [|reflexivity].
    rewrite (to_fields_empty_indep hook m' obj obj' oatys (attrs0, ds) T E). reflexivity.
  Qed.

  (* the embedded pointer is set: the promoted field is the stripped field on the embedded struct *)
  Lemma to_field_strip hook om gs ps atys st :
    fi_kind i <> CustomKind -> (forall m', om = Some m' -> tf_ok m' = true) ->
    lookup p gs = Some (GPtr (Some (GStruct ps))) ->
    to_field hook (Field i om) (GStruct gs) atys st = to_field hook (Field (strip i) om) (GStruct ps) atys st.
  Proof.
    intros NC TM Lp. destruct st as [attrs ds]. rewrite !to_field_eq. cbv zeta.
    cbn [strip fi_snake fi_path fi_kind fi_oneof fi_nullable fi_tk].
    destruct (lookup (fi_snake i) atys) as [t|]; [|reflexivity].
    pose proof (pin_set i p z gs _ P IN Lp) as PN.
    assert (RS : forall z0, read_source i z0 (GStruct gs) = read_source (strip i) z0 (GStruct ps)).
    { intros z0. unfold read_source. cbn [strip fi_oneof fi_via fi_name]. rewrite O, PN, V. cbn [bind].
      unfold parent_is_nil. cbn [strip fi_parent bind]. rewrite (gget_via_set _ _ _ _ Lp). reflexivity. }
    assert (RF : forall bz, read_field i bz (GStruct gs) = read_field (strip i) bz (GStruct ps)).
    { intros bz. unfold read_field. cbn [strip fi_oneof fi_via fi_name]. rewrite O, V.
      rewrite (gget_via_set _ _ _ _ Lp). reflexivity. }
    assert (ZP : zero_of_prim (strip i) = zero_of_prim i) by reflexivity.
    destruct (fi_kind i) eqn:K.
    - rewrite O, ZP, RF. cbn [bind].
      now rewrite (to_prim_value_strip _ (GStruct gs) (GStruct ps) t _ ds PN).
    - destruct t; try reflexivity. rewrite RS.
      destruct (read_source (strip i) (GSlice None) (GStruct ps)) as [g|]; cbn [bind]; [|reflexivity].
      destruct g as [| | |src| | |]; try reflexivity.
      destruct (match lookup (fi_snake i) attrs with Some (VList e n0 u0 el) => _ | _ => _ end) as [[cety cn] celems].
      destruct src as [l|]; [|reflexivity].
      rewrite (fold_left_ext _ (fun acc a => do '(vs, ds1) <- acc;
                                  do '(v, ds2) <- to_prim_value (strip i) (Ok a) (GStruct ps) t (lookup (fi_snake i) attrs) ds1;
                                  Ok (vs ++ [v], ds2))); [reflexivity|].
      intros acc a. destruct acc as [[vs ds1]|]; cbn [bind]; [|reflexivity].
      now rewrite (to_prim_value_strip _ (GStruct gs) (GStruct ps) t _ ds1 PN).
    - destruct om as [m'|]; [|reflexivity]. rewrite RS.
      destruct (read_source (strip i) (if fi_nullable i then GPtr None else m_zero m') (GStruct ps)); cbn [bind]; [|reflexivity].
      destruct t; try reflexivity.
      now rewrite (obj_value_strip hook (GStruct gs) (GStruct ps) _ m' _ ats ds (TM m' eq_refl)).
    - destruct t; try reflexivity. rewrite RS.
      destruct (read_source (strip i) (GSlice None) (GStruct ps)) as [g|]; cbn [bind]; [|reflexivity].
      destruct g as [| | |src| | |]; try reflexivity.
      destruct (match lookup (fi_snake i) attrs with Some (VList e n0 u0 el) => _ | _ => _ end) as [[cety cn] celems].
      destruct src as [l|]; [|reflexivity].
      destruct om as [m'|].
      + destruct t; try reflexivity.
        rewrite (fold_left_ext _ (fun acc a => do '(vs, ds1) <- acc;
                                    do '(v, ds2) <- obj_value hook (strip i) (GStruct ps) (lookup (fi_snake i) attrs) m' (Ok a) ats ds1;
                                    Ok (vs ++ [v], ds2))); [reflexivity|].
        intros acc a. destruct acc as [[vs ds1]|]; cbn [bind]; [|reflexivity].
        now rewrite (obj_value_strip hook (GStruct gs) (GStruct ps) _ m' _ ats ds1 (TM m' eq_refl)).
      + rewrite (fold_left_ext _ (fun acc a => do '(vs, ds1) <- acc;
                                    do '(v, ds2) <- to_prim_value (strip i) (Ok a) (GStruct ps) t (lookup (fi_snake i) attrs) ds1;
                                    Ok (vs ++ [v], ds2))); [reflexivity|].
        intros acc a. destruct acc as [[vs ds1]|]; cbn [bind]; [|reflexivity].
        now rewrite (to_prim_value_strip _ (GStruct gs) (GStruct ps) t _ ds1 PN).
    - destruct t; try reflexivity. rewrite RS.
      destruct (read_source (strip i) (GMap None) (GStruct ps)) as [g|]; cbn [bind]; [|reflexivity].
      destruct g as [| | | |src| |]; try reflexivity.
      destruct (match lookup (fi_snake i) attrs with Some (VMap e n0 u0 el) => _ | _ => _ end) as [[cety cn] celems].
      destruct src as [l|]; [|reflexivity].
      rewrite (fold_left_ext _ (fun acc ka => do '(es, ds1) <- acc;
                                  do '(v, ds2) <- to_prim_value (strip i) (Ok (snd ka)) (GStruct ps) t (lookup (fi_snake i) attrs) ds1;
                                  Ok (update (fst ka) v es, ds2))); [reflexivity|].
      intros acc a. destruct acc as [[vs ds1]|]; cbn [bind]; [|reflexivity].
      now rewrite (to_prim_value_strip _ (GStruct gs) (GStruct ps) t _ ds1 PN).
    - destruct t; try reflexivity. rewrite RS.
      destruct (read_source (strip i) (GMap None) (GStruct ps)) as [g|]; cbn [bind]; [|reflexivity].
      destruct g as [| | | |src| |]; try reflexivity.
      destruct (match lookup (fi_snake i) attrs with Some (VMap e n0 u0 el) => _ | _ => _ end) as [[cety cn] celems].
      destruct src as [l|]; [|reflexivity].
      destruct om as [m'|].
      + destruct t; try reflexivity.
        rewrite (fold_left_ext _ (fun acc ka => do '(es, ds1) <- acc;
                                    do '(v, ds2) <- obj_value hook (strip i) (GStruct ps) (lookup (fi_snake i) attrs) m' (Ok (snd ka)) ats ds1;
                                    Ok (update (fst ka) v es, ds2))); [reflexivity|].
        intros acc a. destruct acc as [[vs ds1]|]; cbn [bind]; [|reflexivity].
        now rewrite (obj_value_strip hook (GStruct gs) (GStruct ps) _ m' _ ats ds1 (TM m' eq_refl)).
      + rewrite (fold_left_ext _ (fun acc ka => do '(es, ds1) <- acc;
                                    do '(v, ds2) <- to_prim_value (strip i) (Ok (snd ka)) (GStruct ps) t (lookup (fi_snake i) attrs) ds1;
                                    Ok (update (fst ka) v es, ds2))); [reflexivity|].
        intros acc a. destruct acc as [[vs ds1]|]; cbn [bind]; [|reflexivity].
        now rewrite (to_prim_value_strip _ (GStruct gs) (GStruct ps) t _ ds1 PN).
    - now contradiction NC.
  Qed.

  (* the embedded pointer is nil and the field is a message by value: the stripped field on a struct
     which holds the zero value of the message *)
  Lemma to_field_strip_nil_value hook m' gs atys st :
    fi_kind i = ObjectKind -> fi_nullable i = false -> tf_ok m' = true ->
    lookup p gs = Some (GPtr None) ->
    to_field hook (Field i (Some m')) (GStruct gs) atys st
    = to_field hook (Field (strip i) (Some m')) (GStruct [(fi_name i, m_zero m')]) atys st.
  Proof.
    intros K NU TM Lp. destruct st as [attrs ds]. rewrite !to_field_eq. cbv zeta.
    cbn [strip fi_snake fi_path fi_kind fi_oneof fi_nullable fi_tk].
    destruct (lookup (fi_snake i) atys) as [t|]; [|reflexivity].
    pose proof (pin_nil i p z gs P IN Lp) as PN. rewrite K, NU.
    assert (R1 : read_source i (m_zero m') (GStruct gs) = Ok (m_zero m')).
    { unfold read_source. now rewrite O, PN. }
    assert (R2 : read_source (strip i) (m_zero m') (GStruct [(fi_name i, m_zero m')]) = Ok (m_zero m')).
    { unfold read_source, parent_is_nil. cbn [strip fi_oneof fi_via fi_name fi_parent]. rewrite O.
      cbn [bind gget_via gfield lookup]. now rewrite String.eqb_refl. }
    rewrite R1, R2. cbn [bind]. destruct t; try reflexivity.
    now rewrite (obj_value_strip hook (GStruct gs) (GStruct [(fi_name i, m_zero m')]) _ m' _ ats ds TM).
  Qed.
End Strip.

(* ------------------------------------------------------------------------------------- *)
(* 2. the attribute CopyTo writes is of the field's kind: it makes CopyFrom write (alloc_attr) or it
   is null (null_attr); the attribute of a message by value is never null *)

Definition null_attr (i : finfo) (a : tfval) : bool :=
  match fi_kind i, a with
  | PrimitiveKind, VPrim k n u _ => tfkind_eqb k (fi_tk i) && negb (known n u)
  | ObjectKind, VObj _ n u _ => negb (known n u)
  | (PrimitiveListKind | ObjectListKind), VList _ n u _ => negb (known n u)
  | (PrimitiveMapKind | ObjectMapKind), VMap _ n u _ => negb (known n u)
  | _, _ => false
  end.

Lemma obj_value_fresh_shape hook i obj m' rd ats ds v ds' :
  obj_value hook i obj None m' rd ats ds = Ok (v, ds') ->
  exists n at0, v = VObj ats n false at0 /\ (fi_nullable i = false -> n = false).
Proof.
  unfold obj_value. cbv beta iota zeta. intros H.
  destruct (fi_nullable i).
  - repeat step H; do 2 eexists; (split; [reflexivity|discriminate]).
  - repeat step H; do 2 eexists; (split; [reflexivity|reflexivity]).
Qed.

Lemma to_field_attr_kind hook i om obj atys attrs ds attrs' ds' v t :
  to_field hook (Field i om) obj atys (attrs, ds) = Ok (attrs', ds') ->
  lookup (fi_snake i) attrs' = Some v ->
  lookup (fi_snake i) atys = Some t -> field_ty (Field i om) = Some t -> lookup (fi_snake i) attrs = None ->
  (alloc_attr i v = true \/ null_attr i v = true) /\ (by_value i = true -> alloc_attr i v = true).
Proof.
  intros H L La FT Lc. rewrite to_field_eq in H. cbv zeta in H. rewrite La, Lc in H.
  unfold alloc_attr, null_attr, by_value. cbn [field_ty] in FT.
  assert (KN : forall n, known n false = true \/ negb (known n false) = true) by (intros []; cbn; auto).
  destruct (fi_kind i) eqn:K.
  - inversion FT; subst t; clear FT. repeat step H.
    match goal with E : to_prim_value _ _ _ _ _ _ = Ok _ |- _ => apply to_prim_value_shape in E; destruct E as (n & q & ->) end.
    rewrite lookup_update_eq in L. inversion L; subst v. rewrite CopyToProofs.tfkind_eqb_refl. cbn [andb].
    split; [apply KN|discriminate].
  - inversion FT; subst t; clear FT. split; [|discriminate].
    repeat step H; rewrite lookup_update_eq in L; inversion L; subst v; apply KN.
  - destruct om as [m'|]; [|discriminate FT]. inversion FT; subst t; clear FT.
    repeat step H.
    match goal with E : obj_value _ _ _ _ _ _ _ _ = Ok _ |- _ =>
      apply obj_value_fresh_shape in E; destruct E as (n & at0 & -> & NN) end.
    rewrite lookup_update_eq in L. inversion L; subst v. split; [apply KN|].
    intros BV. apply negb_true_iff in BV. now rewrite (NN BV).
  - destruct om as [m'|]; [|discriminate FT]. inversion FT; subst t; clear FT. split; [|discriminate].
    repeat step H; rewrite lookup_update_eq in L; inversion L; subst v; apply KN.
  - inversion FT; subst t; clear FT. split; [|discriminate].
    repeat step H; rewrite lookup_update_eq in L; inversion L; subst v; apply KN.
  - destruct om as [m'|]; [|discriminate FT]. inversion FT; subst t; clear FT. split; [|discriminate].
    repeat step H; rewrite lookup_update_eq in L; inversion L; subst v; apply KN.
  - discriminate FT.
Qed.

(* ------------------------------------------------------------------------------------- *)
(* 3. CopyFrom for a promoted field, from what it does for the stripped field *)

Lemma known_alloc n u : negb (known n u) = true -> known n u = false.
Proof. now destruct (known n u). Qed.

(* a null attribute leaves the target alone *)
Lemma from_promoted_null hook i om p z attrs v tgt ds :
  fi_via i = [p] -> fi_parent i = Some (p, z) -> fi_oneof i = None ->
  (is_prim_kind (fi_kind i) = false -> exists m', om = Some m') ->
  lookup (fi_snake i) attrs = Some v -> null_attr i v = true ->
  from_field hook (Field i om) (Some attrs) (tgt, ds) = Ok (tgt, ds).
Proof.
  intros V P O OM L NA. cbn [from_field]. fold (from_fields hook). rewrite L, V, P, O.
  unfold null_attr in NA. destruct (fi_kind i) eqn:K.
  - destruct v as [k n u q| | | | |]; try discriminate NA. apply andb_prop in NA. destruct NA as [NA1 NA2].
    apply known_alloc in NA2. cbn [as_prim]. rewrite NA1. unfold from_prim_value. rewrite NA2. reflexivity.
  - destruct v as [|ety n u el| | | |]; try discriminate NA. apply known_alloc in NA. now rewrite NA.
  - destruct (OM eq_refl) as (m' & ->). destruct v as [| | |aty n u at0| |]; try discriminate NA.
    apply known_alloc in NA. now rewrite NA.
  - destruct v as [|ety n u el| | | |]; try discriminate NA. apply known_alloc in NA. now rewrite NA.
  - destruct v as [| |ety n u el| | |]; try discriminate NA. apply known_alloc in NA. now rewrite NA.
  - destruct v as [| |ety n u el| | |]; try discriminate NA. apply known_alloc in NA. now rewrite NA.
  - discriminate NA.
Qed.

Lemma update_same_key {A} k (v w : A) l : update k v (update k w l) = update k v l.
Proof. apply update_update. Qed.

(* the state of the embedded pointer p of the target: nil (the struct to be allocated is z) or set *)
Definition tgt_parent (tgt : list (string * goval)) (p : string) (z : goval) (pt : list (string * goval)) : Prop :=
  (lookup p tgt = Some (GPtr None) /\ z = GStruct pt) \/ lookup p tgt = Some (GPtr (Some (GStruct pt))).

Lemma alloc_tgt i p z tgt pt :
  fi_parent i = Some (p, z) -> fi_inner i = [] -> tgt_parent tgt p z pt ->
  exists tgt1, alloc_parent i (GStruct tgt) = Ok (GStruct tgt1)
               /\ lookup p tgt1 = Some (GPtr (Some (GStruct pt)))
               /\ forall x, update p x tgt1 = update p x tgt.
Proof.
  intros P IN TP. rewrite (alloc_parent_single i p z _ P IN). cbn [gfield bind].
  destruct TP as [[Lp ->]|Lp]; rewrite Lp; cbn [bind].
  - rewrite (gset_upd _ _ _ (lookup_Some_keys _ _ _ Lp)). eexists. split; [reflexivity|].
    split; [apply lookup_update_eq|]. intros x. apply update_update.
  - exists tgt. auto.
Qed.

Lemma gset_via_tgt tgt1 p pt n x pt2 :
  lookup p tgt1 = Some (GPtr (Some (GStruct pt))) -> gset (GStruct pt) n x = Ok (GStruct pt2) ->
  gset_via (GStruct tgt1) [p] n x = Ok (GStruct (update p (GPtr (Some (GStruct pt2))) tgt1)).
Proof.
  intros Lp G. cbn [gset_via gfield bind]. rewrite Lp. cbn [bind]. rewrite G. cbn [bind].
  now rewrite (gset_upd _ _ _ (lookup_Some_keys _ _ _ Lp)).
Qed.

Lemma gset_struct pt n x o : gset (GStruct pt) n x = Ok o -> o = GStruct (update n x pt).
Proof. cbn [gset]. destruct (lookup n pt); intros H; inversion H; reflexivity. Qed.

(* an attribute which is known and not null: the embedded struct is allocated and receives what the
   stripped field writes *)
Lemma from_promoted_alloc hook i om p z attrs v tgt pt pt' ds ds' :
  fi_via i = [p] -> fi_parent i = Some (p, z) -> fi_inner i = [] -> fi_oneof i = None ->
  lookup (fi_snake i) attrs = Some v -> alloc_attr i v = true -> tgt_parent tgt p z pt ->
  from_field hook (Field (strip i) om) (Some attrs) (GStruct pt, ds) = Ok (GStruct pt', ds') ->
  from_field hook (Field i om) (Some attrs) (GStruct tgt, ds)
  = Ok (GStruct (update p (GPtr (Some (GStruct pt'))) tgt), ds').
Proof.
  intros V P IN O L AA TP H.
  destruct (alloc_tgt i p z tgt pt P IN TP) as (tgt1 & AL & L1 & U1).
  cbn [from_field] in H |- *. fold (from_fields hook) in H |- *.
  cbn [strip fi_snake fi_path fi_via fi_name fi_kind fi_oneof fi_parent fi_nullable] in H.
  rewrite L in H |- *. rewrite O in H |- *. rewrite V, P.
  change (alloc_parent (strip i)) with (fun o : goval => Ok o) in H. cbv beta in H.
  change (as_prim (strip i)) with (as_prim i) in H.
  change (from_prim_value (strip i)) with (from_prim_value i) in H.
  change (zero_of_prim (strip i)) with (zero_of_prim i) in H.
  unfold alloc_attr in AA. destruct (fi_kind i) eqn:K.
  - destruct v as [k n u q| | | | |]; try discriminate AA. apply andb_prop in AA. destruct AA as [A1 A2].
    cbn [as_prim] in H |- *. rewrite A1 in H |- *.
    destruct (from_prim_value i n u q) as [t|]; cbn [bind] in H |- *; [|discriminate H].
    rewrite A2, AL. cbn [bind gset_via] in H; cbn [bind].
    destruct (gset (GStruct pt) (fi_name i) t) as [o|] eqn:G; cbn [bind] in H; [|discriminate H].
    pose proof (gset_struct _ _ _ _ G) as ->. inversion H; subst.
    rewrite (gset_via_tgt _ _ _ _ _ _ L1 G). cbn [bind]. now rewrite U1.
  - destruct v as [|ety n u el| | | |]; try discriminate AA. rewrite AA in H |- *.
    match type of H with bind ?X _ = _ => destruct X as [[vs dsx]|]; cbn [bind] in H |- *; [|discriminate H] end.
    rewrite AL. cbn [bind gset_via] in H; cbn [bind].
    destruct (gset (GStruct pt) (fi_name i) (GSlice (Some vs))) as [o|] eqn:G; cbn [bind] in H; [|discriminate H].
    pose proof (gset_struct _ _ _ _ G) as ->. inversion H; subst.
    rewrite (gset_via_tgt _ _ _ _ _ _ L1 G). cbn [bind]. now rewrite U1.
  - destruct om as [m'|]; [|discriminate H].
    destruct v as [| | |aty n u at0| |]; try discriminate AA. rewrite AA in H |- *. cbn [bind gset_via] in H; cbn [bind].
    destruct (gset (GStruct pt) (fi_name i) (if fi_nullable i then GPtr None else m_zero m')) as [o1|] eqn:G1;
      cbn [bind] in H; [|discriminate H].
    pose proof (gset_struct _ _ _ _ G1) as ->. rewrite AL. cbn [bind].
    match type of H with bind ?X _ = _ => destruct X as [[x dsx]|]; cbn [bind] in H |- *; [|discriminate H] end.
    match type of H with bind (gset _ _ ?y) _ = _ => set (w := y) in * end.
    destruct (gset (GStruct (update (fi_name i) (if fi_nullable i then GPtr None else m_zero m') pt)) (fi_name i) w)
      as [o2|] eqn:G2; cbn [bind] in H; [|discriminate H].
    pose proof (gset_struct _ _ _ _ G2) as ->. inversion H; subst. rewrite update_update.
    assert (G : gset (GStruct pt) (fi_name i) w = Ok (GStruct (update (fi_name i) w pt))).
    { cbn [gset] in G1 |- *. destruct (lookup (fi_name i) pt); [reflexivity|discriminate G1]. }
    rewrite (gset_via_tgt _ _ _ _ _ _ L1 G). cbn [bind]. now rewrite U1.
  - destruct v as [|ety n u el| | | |]; try discriminate AA. rewrite AA in H |- *.
    match type of H with bind ?X _ = _ => destruct X as [[vs dsx]|]; cbn [bind] in H |- *; [|discriminate H] end.
    rewrite AL. cbn [bind gset_via] in H; cbn [bind].
    destruct (gset (GStruct pt) (fi_name i) (GSlice (Some vs))) as [o|] eqn:G; cbn [bind] in H; [|discriminate H].
    pose proof (gset_struct _ _ _ _ G) as ->. inversion H; subst.
    rewrite (gset_via_tgt _ _ _ _ _ _ L1 G). cbn [bind]. now rewrite U1.
  - destruct v as [| |ety n u el| | |]; try discriminate AA. rewrite AA in H |- *.
    match type of H with bind ?X _ = _ => destruct X as [[vs dsx]|]; cbn [bind] in H |- *; [|discriminate H] end.
    rewrite AL. cbn [bind gset_via] in H; cbn [bind].
    destruct (gset (GStruct pt) (fi_name i) (GMap (Some vs))) as [o|] eqn:G; cbn [bind] in H; [|discriminate H].
    pose proof (gset_struct _ _ _ _ G) as ->. inversion H; subst.
    rewrite (gset_via_tgt _ _ _ _ _ _ L1 G). cbn [bind]. now rewrite U1.
  - destruct v as [| |ety n u el| | |]; try discriminate AA. rewrite AA in H |- *.
    match type of H with bind ?X _ = _ => destruct X as [[vs dsx]|]; cbn [bind] in H |- *; [|discriminate H] end.
    rewrite AL. cbn [bind gset_via] in H; cbn [bind].
    destruct (gset (GStruct pt) (fi_name i) (GMap (Some vs))) as [o|] eqn:G; cbn [bind] in H; [|discriminate H].
    pose proof (gset_struct _ _ _ _ G) as ->. inversion H; subst.
    rewrite (gset_via_tgt _ _ _ _ _ _ L1 G). cbn [bind]. now rewrite U1.
  - discriminate AA.
Qed.

(* ------------------------------------------------------------------------------------- *)
(* 4. the normal form *)

(* a promoted field which is absent: the zero scalar (up to the normal form of scalars), the nil
   pointer, the nil or empty list or map, the nil message; a message by value which is equivalent to
   the zero value of its struct *)
Definition go_absent (i : finfo) (om : option message) (v : goval) : Prop :=
  match fi_kind i with
  | PrimitiveKind => if fi_nullable i then v = GPtr None else sc_equiv (zero_scalar (fi_cast i)) v
  | PrimitiveListKind | ObjectListKind => exists o, v = GSlice o /\ olist o = []
  | PrimitiveMapKind | ObjectMapKind => exists o, v = GMap o /\ olist o = []
  | ObjectKind =>
      if fi_nullable i then v = GPtr None
      else match om with Some m' => nf_equiv m' v (m_zero m') | None => False end
  | CustomKind => False
  end.

Definition promoted_from (p : string) (f : field) : Prop := exists z, fi_parent (f_info f) = Some (p, z).

(* the embedded pointer p of the struct g is nil, or all the fields promoted from it are absent *)
Definition pabsent (fs : list field) (p : string) (g : list (string * goval)) : Prop :=
  lookup p g = Some (GPtr None)
  \/ exists ps, lookup p g = Some (GPtr (Some (GStruct ps))) /\
       forall f, In f fs -> promoted_from p f ->
         exists v, lookup (fi_name (f_info f)) ps = Some v /\ go_absent (f_info f) (f_msg f) v.

(* both nil-or-absent, or both set with equivalent promoted fields *)
Definition pequiv (fs : list field) (p : string) (ga gb : list (string * goval)) : Prop :=
  (pabsent fs p ga /\ pabsent fs p gb)
  \/ exists pa pb, lookup p ga = Some (GPtr (Some (GStruct pa))) /\ lookup p gb = Some (GPtr (Some (GStruct pb))) /\
       forall f, In f fs -> promoted_from p f -> fnf_equiv f pa pb.

Definition nfe_equiv (m : message) (a b : goval) : Prop :=
  exists ga gb, a = GStruct ga /\ b = GStruct gb /\
    (forall k, In k (keys ga) <-> In k (keys gb)) /\
    (forall h, In h (m_oneofs m) -> holder_ok (m_fields m) h ga /\ holder_ok (m_fields m) h gb) /\
    (forall f, In f (m_fields m) -> fi_parent (f_info f) = None -> fnf_equiv f ga gb) /\
    (forall p, In p (parents (m_fields m)) -> pequiv (m_fields m) p ga gb).

(* what an ordinary field writes for a null attribute *)
Definition zero_val (i : finfo) (om : option message) : goval :=
  match fi_kind i with
  | PrimitiveKind => zero_of_prim i
  | PrimitiveListKind | ObjectListKind => GSlice (Some [])
  | PrimitiveMapKind | ObjectMapKind => GMap (Some [])
  | ObjectKind => if fi_nullable i then GPtr None else match om with Some m' => m_zero m' | None => GPtr None end
  | CustomKind => GPtr None
  end.

Lemma alloc_null_excl i v : alloc_attr i v = true -> null_attr i v = true -> False.
Proof.
  unfold alloc_attr, null_attr. destruct (fi_kind i), v; try discriminate; intros A N;
    try (apply andb_prop in A; destruct A as [_ A]; apply andb_prop in N; destruct N as [_ N]);
    rewrite A in N; discriminate N.
Qed.

Lemma from_null_ordinary hook i om attrs v tgt ds :
  fi_via i = [] -> fi_parent i = None -> fi_oneof i = None ->
  (is_prim_kind (fi_kind i) = false -> exists m', om = Some m') ->
  lookup (fi_snake i) attrs = Some v -> null_attr i v = true -> In (fi_name i) (keys tgt) ->
  from_field hook (Field i om) (Some attrs) (GStruct tgt, ds)
  = Ok (GStruct (update (fi_name i) (zero_val i om) tgt), ds).
Proof.
  intros V P O OM L NA I. unfold null_attr in NA. unfold zero_val. destruct (fi_kind i) eqn:K.
  - destruct v as [k n u q| | | | |]; try discriminate NA. apply andb_prop in NA. destruct NA as [NA1 NA2].
    apply known_alloc in NA2. apply tfkind_eqb_eq in NA1. subst k.
    rewrite (from_field_prim_eq hook i om attrs _ ds V P n u q K L). unfold from_prim_value. rewrite NA2, O.
    cbn [bind]. now rewrite (gset_in _ _ _ I).
  - destruct v as [|ety n u el| | | |]; try discriminate NA. apply known_alloc in NA.
    rewrite (from_field_list_eq hook i om attrs _ ds V P _ _ _ _ (or_introl K) L). rewrite NA. cbn [bind].
    now rewrite (gset_in _ _ _ I).
  - destruct (OM eq_refl) as (m' & ->). destruct v as [| | |aty n u at0| |]; try discriminate NA.
    apply known_alloc in NA.
    rewrite (from_field_obj_eq hook i (Some m') attrs _ ds V P m' _ _ _ _ K eq_refl L). rewrite O, NA.
    now rewrite (gset_in _ _ _ I).
  - destruct v as [|ety n u el| | | |]; try discriminate NA. apply known_alloc in NA.
    rewrite (from_field_list_eq hook i om attrs _ ds V P _ _ _ _ (or_intror K) L). rewrite NA. cbn [bind].
    now rewrite (gset_in _ _ _ I).
  - destruct v as [| |ety n u el| | |]; try discriminate NA. apply known_alloc in NA.
    rewrite (from_field_map_eq hook i om attrs _ ds V P _ _ _ _ (or_introl K) L). rewrite NA. cbn [bind].
    now rewrite (gset_in _ _ _ I).
  - destruct v as [| |ety n u el| | |]; try discriminate NA. apply known_alloc in NA.
    rewrite (from_field_map_eq hook i om attrs _ ds V P _ _ _ _ (or_intror K) L). rewrite NA. cbn [bind].
    now rewrite (gset_in _ _ _ I).
  - discriminate NA.
Qed.

Lemma Forall2_nil_l {A B} (R : A -> B -> Prop) l : Forall2 R [] l -> l = [].
Proof. intros H. now inversion H. Qed.

(* a value equivalent to what a null attribute is read as is absent *)
Lemma zero_equiv_absent i om g :
  by_value i = false -> val_equiv i (E_of om) (zero_val i om) g -> go_absent i om g.
Proof.
  unfold by_value, val_equiv, zero_val, go_absent, zero_of_prim. intros BV.
  assert (EL : forall E, fi_nullable i = true -> elem_equiv i E (GPtr None) g -> g = GPtr None).
  { intros E N. unfold elem_equiv. rewrite N. intros [[_ H]|(x & y & H & _)]; [exact H|discriminate H]. }
  destruct (fi_kind i).
  - destruct (fi_nullable i) eqn:N; [now apply EL|]. unfold elem_equiv. now rewrite N.
  - intros (oa & ob & [= <-] & -> & F). exists ob. split; [reflexivity|]. now apply Forall2_nil_l in F.
  - apply negb_false_iff in BV. rewrite BV. destruct om as [m'|]; cbn [E_of]; [now apply EL|intros []].
  - destruct om as [m'|]; cbn [E_of]; [|intros []].
    intros (oa & ob & [= <-] & -> & F). exists ob. split; [reflexivity|]. now apply Forall2_nil_l in F.
  - intros (oa & ob & [= <-] & -> & F). exists ob. split; [reflexivity|]. now apply Forall2_nil_l in F.
  - destruct om as [m'|]; cbn [E_of]; [|intros []].
    intros (oa & ob & [= <-] & -> & F). exists ob. split; [reflexivity|]. now apply Forall2_nil_l in F.
  - intros [].
Qed.

(* two absent values are equivalent (but for a message by value) *)
Lemma absent_equiv i om a b :
  by_value i = false -> (is_prim_kind (fi_kind i) = false -> exists m', om = Some m') ->
  go_absent i om a -> go_absent i om b -> val_equiv i (E_of om) a b.
Proof.
  unfold by_value, val_equiv, go_absent. intros BV OM.
  destruct (fi_kind i).
  - unfold elem_equiv, sc_equiv. destruct (fi_nullable i); [intros -> ->; now left|congruence].
  - intros (oa & -> & Ea) (ob & -> & Eb). exists oa, ob. rewrite Ea, Eb. auto.
  - destruct (OM eq_refl) as (m' & ->). apply negb_false_iff in BV. rewrite BV. cbn [E_of]. unfold elem_equiv.
    rewrite BV. intros -> ->. now left.
  - destruct (OM eq_refl) as (m' & ->). cbn [E_of].
    intros (oa & -> & Ea) (ob & -> & Eb). exists oa, ob. rewrite Ea, Eb. auto.
  - intros (oa & -> & Ea) (ob & -> & Eb). exists oa, ob. rewrite Ea, Eb. auto.
  - destruct (OM eq_refl) as (m' & ->). cbn [E_of].
    intros (oa & -> & Ea) (ob & -> & Eb). exists oa, ob. rewrite Ea, Eb. auto.
  - intros [].
Qed.

(* ------------------------------------------------------------------------------------- *)
(* 5. one promoted field: what CopyTo writes, CopyFrom reads back *)

(* the value v which the result holds for the promoted field f is equivalent to the value of the
   source (the embedded pointer of the source is set), or absent (it is nil) *)
Definition pres (f : field) (p : string) (gs : list (string * goval)) (v : goval) : Prop :=
  (exists ps g, lookup p gs = Some (GPtr (Some (GStruct ps))) /\ lookup (fi_name (f_info f)) ps = Some g
                /\ val_equiv (f_info f) (E_of (f_msg f)) v g)
  \/ (lookup p gs = Some (GPtr None) /\ go_absent (f_info f) (f_msg f) v).

(* the promoted field f is absent in the source *)
Definition src_absent (f : field) (p : string) (gs : list (string * goval)) : Prop :=
  by_value (f_info f) = false /\
  (lookup p gs = Some (GPtr None)
   \/ exists ps g, lookup p gs = Some (GPtr (Some (GStruct ps))) /\ lookup (fi_name (f_info f)) ps = Some g
                   /\ go_absent (f_info f) (f_msg f) g).

Section RTE.
  Variable hook_to : hook_to_t.
  Variable hook_from : hook_from_t.
  Variable SOK : goscalar -> bool.
  Hypothesis SRT : forall s g, SOK s = true -> scalar_val s g ->
    exists p g', cast_to (kind_of s) g = Ok p /\ cast_from s p = Ok g' /\ nf_scalar g' = nf_scalar g.
  Hypothesis SZN : forall s g p, SOK s = true -> zero_lit s = true -> scalar_val s g ->
    cast_to (kind_of s) g = Ok p -> (prim_is_zero p = true <-> nf_scalar g = nf_scalar (zero_scalar s)).

  (* the attribute v of the promoted field f, written from the struct gs, read back into any target:
     it is null, the target is left alone and the field is absent in the source; or the embedded
     struct is allocated (when nil) and receives a value which stands for the field of the source *)
  Definition pfield_back (f : field) (p : string) (z : goval) (gs : list (string * goval)) (v : tfval) : Prop :=
    forall attrs tgt ds2, lookup (snake f) attrs = Some v ->
      (from_field hook_from f (Some attrs) (GStruct tgt, ds2) = Ok (GStruct tgt, ds2) /\ src_absent f p gs)
      \/ (forall pt, tgt_parent tgt p z pt -> In (fi_name (f_info f)) (keys pt) ->
            exists g', from_field hook_from f (Some attrs) (GStruct tgt, ds2)
                       = Ok (GStruct (update p (GPtr (Some (GStruct (update (fi_name (f_info f)) g' pt)))) tgt), ds2)
                       /\ pres f p gs g').

  Definition pfield_rt (f : field) (p : string) (z : goval) (gs : list (string * goval)) : Prop :=
    forall atys attrs ds t, field_ty f = Some t ->
      lookup (snake f) atys = Some t -> lookup (snake f) attrs = None ->
      exists v, to_field hook_to f (GStruct gs) atys (attrs, ds) = Ok (update (snake f) v attrs, ds)
                /\ pfield_back f p z gs v.

  (* what the class says about one promoted field *)
  Definition pcond (i : finfo) (om : option message) (p : string) (z : goval) : Prop :=
    fi_via i = [p] /\ fi_parent i = Some (p, z) /\ fi_inner i = [] /\ fi_oneof i = None
    /\ fi_placeholder i = false /\ fi_kind i <> CustomKind
    /\ (is_prim_kind (fi_kind i) = true ->
        fi_tk i = kind_of (fi_cast i) /\ (fi_zero i = true -> fi_nullable i = false) /\ SOK (fi_cast i) = true)
    /\ (is_prim_kind (fi_kind i) = false -> exists m', om = Some m')
    /\ (forall m', om = Some m' -> tf_ok m' = true /\ rt_more m' = true /\ nested_ok hook_to hook_from m').

  Lemma pcond_fcond i om p z : pcond i om p z -> fcond SOK [] (strip i) om.
  Proof.
    intros (V & P & IN & O & PH & NC & PC & OM & _).
    split; [reflexivity|]. split; [reflexivity|]. split; [exact PH|]. split; [exact NC|]. split.
    { intros PK. destruct (PC PK) as (Hk & Hz & OK). split; [exact Hk|]. split; [reflexivity|].
      split; [exact PH|]. split; [exact Hz|exact OK]. }
    split; [exact OM|].
    cbn [strip fi_oneof]. rewrite O. intros [].
  Qed.

  Lemma pcond_to_ok i om p z : pcond i om p z -> pinfo_to_ok i om = true.
  Proof.
    intros (V & P & IN & O & PH & NC & PC & OM & NM). unfold pinfo_to_ok. rewrite V, P, IN, O, PH, String.eqb_refl.
    cbn [negb andb].
    destruct (fi_kind i) eqn:K; cbn [is_prim_kind] in PC, OM;
      try (destruct (PC eq_refl) as (_ & Hz & _); destruct (fi_zero i); [now rewrite Hz|reflexivity]);
      try (destruct (OM eq_refl) as (m' & ->); now destruct (NM m' eq_refl)).
  Qed.

  (* from the round trip of the stripped field on the struct ps *)
  Lemma pback_of_strip i om p z gs ps v :
    pcond i om p z ->
    field_back hook_from (Field (strip i) om) ps v ->
    (alloc_attr i v = true \/ null_attr i v = true) -> (by_value i = true -> alloc_attr i v = true) ->
    (forall g, lookup (fi_name i) ps = Some g -> go_absent i om g -> by_value i = false ->
               src_absent (Field i om) p gs) ->
    (forall g g', lookup (fi_name i) ps = Some g -> val_equiv i (E_of om) g' g -> pres (Field i om) p gs g') ->
    pfield_back (Field i om) p z gs v.
  Proof.
    intros (V & P & IN & O & PH & NC & PC & OM' & _) FB AK BV HA HE attrs2 tgt ds2 L.
    unfold snake in L. cbn [f_info] in *.
    assert (RGL : forall g, read_go (strip i) ps = Some g -> lookup (fi_name i) ps = Some g).
    { intros g. unfold read_go. cbn [strip fi_oneof fi_name]. now rewrite O. }
    destruct AK as [AA|NA].
    - right. intros pt TP Ik.
      destruct (FB attrs2 pt ds2 L) as (g & RG & Back).
      { unfold key_of. cbn [f_info strip fi_oneof fi_name]. now rewrite O. }
      cbn [f_info f_msg strip fi_oneof fi_name] in Back. rewrite O in Back.
      destruct Back as (g' & Eq & Ev). exists g'. split.
      + exact (from_promoted_alloc hook_from i om p z attrs2 v tgt pt _ ds2 ds2 V P IN O L AA TP Ev).
      + apply (HE g g' (RGL g RG)). exact Eq.
    - left. assert (BF : by_value i = false).
      { destruct (by_value i) eqn:B; [|reflexivity]. exfalso. exact (alloc_null_excl i v (BV eq_refl) NA). }
      split; [exact (from_promoted_null hook_from i om p z attrs2 v _ ds2 V P O OM' L NA)|].
      destruct (FB attrs2 [(fi_name i, GPtr None)] ds2 L) as (g & RG & Back).
      { unfold key_of. cbn [f_info strip fi_oneof fi_name keys map fst]. rewrite O. now left. }
      cbn [f_info f_msg strip fi_oneof fi_name] in Back. rewrite O in Back.
      destruct Back as (g' & Eq & Ev).
      rewrite (from_null_ordinary hook_from (strip i) om attrs2 v _ ds2 eq_refl eq_refl O OM' L NA) in Ev
        by (cbn; now left).
      assert (G : g' = zero_val i om).
      { injection Ev as E1. rewrite String.eqb_refl in E1. now injection E1 as <-. }
      subst g'. apply (HA g (RGL g RG)); [|exact BF]. now apply zero_equiv_absent.
  Qed.

  Lemma nil_render_null_attr i om t : field_ty (Field i om) = Some t -> null_attr i (nil_render t) = true.
  Proof.
    cbn [field_ty]. unfold null_attr.
    destruct (fi_kind i); try destruct om as [m'|]; intros FT; inversion FT; subst; cbn [nil_render];
      rewrite ?CopyToProofs.tfkind_eqb_refl; reflexivity.
  Qed.

  (* the three cases: the embedded pointer set; nil and the field a message by value; nil *)
  Lemma promoted_field_rt i om p z gs :
    pcond i om p z ->
    (fi_kind i = ObjectKind -> fi_nullable i = false -> forall m', om = Some m' -> rt_typed m' (m_zero m')) ->
    lookup p gs = Some (GPtr None)
    \/ (exists ps, lookup p gs = Some (GPtr (Some (GStruct ps))) /\ rt_ftyped (Field i om) ps) ->
    pfield_rt (Field i om) p z gs.
  Proof.
    intros PCD ZT SRC atys attrs ds t FT La Lc.
    pose proof PCD as (V & P & IN & O & PH & NC & PC & OM & NM).
    pose proof (pcond_fcond _ _ _ _ PCD) as FC.
    assert (NO : forall m', om = Some m' -> nested_ok hook_to hook_from m').
    { intros m' E. now destruct (NM m' E) as (_ & _ & N). }
    assert (TM : forall m', om = Some m' -> tf_ok m' = true).
    { intros m' E. now destruct (NM m' E). }
    pose proof (MsgRoundTrip.field_step hook_to hook_from SOK SRT SZN [] (strip i) om FC NO) as FR.
    unfold snake in *. cbn [f_info] in *.
    assert (RUN : forall ps, rt_ftyped (Field (strip i) om) ps ->
              to_field hook_to (Field i om) (GStruct gs) atys (attrs, ds)
              = to_field hook_to (Field (strip i) om) (GStruct ps) atys (attrs, ds) ->
              (forall g, lookup (fi_name i) ps = Some g -> go_absent i om g -> by_value i = false ->
                         src_absent (Field i om) p gs) ->
              (forall g g', lookup (fi_name i) ps = Some g -> val_equiv i (E_of om) g' g ->
                            pres (Field i om) p gs g') ->
              exists v, to_field hook_to (Field i om) (GStruct gs) atys (attrs, ds)
                        = Ok (update (fi_snake i) v attrs, ds)
                        /\ pfield_back (Field i om) p z gs v).
    { intros ps Ty TE HA HE.
      destruct (FR ps atys attrs ds t Ty FT La Lc) as (v & Ev & FB). unfold snake in Ev. cbn [f_info strip fi_snake] in Ev.
      exists v. split; [now rewrite TE|].
      destruct (to_field_attr_kind hook_to (strip i) om _ atys attrs ds _ ds v t Ev (lookup_update_eq _ _ _) La FT Lc)
        as [AK BV].
      apply (pback_of_strip i om p z gs ps v PCD FB AK BV HA HE). }
    destruct SRC as [Lp|(ps & Lp & Ty)].
    - destruct (by_value i) eqn:BVi.
      + (* nil, a message by value *)
        unfold by_value in BVi. destruct (fi_kind i) eqn:K; try discriminate BVi. apply negb_true_iff in BVi.
        cbn [is_prim_kind] in OM. destruct (OM eq_refl) as (m' & ->). pose proof (TM m' eq_refl) as T'.
        apply (RUN [(fi_name i, m_zero m')]).
        * cbn [rt_ftyped strip fi_placeholder]. rewrite PH. unfold reads. cbn [strip fi_oneof fi_name]. rewrite O.
          exists (m_zero m'). split; [cbn [lookup]; now rewrite String.eqb_refl|].
          unfold rt_val_shape. cbn [strip fi_kind]. rewrite K. unfold elem_shape. cbn [strip fi_nullable]. rewrite BVi.
          exact (ZT eq_refl BVi m' eq_refl).
        * exact (to_field_strip_nil_value i p z P IN O hook_to m' gs atys (attrs, ds) K BVi T' Lp).
        * intros g _ _ BF. discriminate BF.
        * intros g g'. cbn [lookup]. rewrite String.eqb_refl. intros [= <-] Eq. right. split; [exact Lp|].
          cbn [f_info f_msg]. unfold go_absent. rewrite K, BVi. unfold val_equiv in Eq. rewrite K in Eq.
          cbn [E_of] in Eq. unfold elem_equiv in Eq. now rewrite BVi in Eq.
      + (* nil: every attribute is null *)
        assert (ET : eftyped (Field i om) gs).
        { unfold eftyped. cbn [f_info f_msg]. rewrite V. left. split; [exact Lp|]. unfold zero_typed.
          destruct (fi_kind i) eqn:K; try exact I. destruct om as [m'|]; [|exact I]. intros NU.
          unfold by_value in BVi. rewrite K, NU in BVi. discriminate BVi. }
        destruct (promoted_runs hook_to gs i om (pcond_to_ok _ _ _ _ PCD) ET atys attrs ds t FT La Lc)
          as (v & Ev & _ & Nv).
        unfold snake in Ev. cbn [f_info] in Ev. exists v. split; [exact Ev|].
        assert (v = nil_render t) as ->.
        { apply Nv.
          - unfold nil_parent. cbn [f_info]. now rewrite V.
          - unfold null_when_nil. cbn [f_info]. intros K. unfold by_value in BVi. rewrite K in BVi.
            now apply negb_false_iff in BVi. }
        intros attrs2 tgt ds2 L. left. unfold snake in L. cbn [f_info] in L. split.
        * apply (from_promoted_null hook_from i om p z attrs2 (nil_render t) _ ds2 V P O OM L).
          now apply (nil_render_null_attr i om).
        * split; [exact BVi|now left].
    - (* the embedded pointer is set *)
      apply (RUN ps).
      + exact Ty.
      + apply (to_field_strip i p z V P IN O hook_to om gs ps atys (attrs, ds) NC TM Lp).
      + intros g Lg Ab BF. split; [exact BF|]. right. exists ps, g. auto.
      + intros g g' Lg Eq. left. exists ps, g. auto.
  Qed.

  (* --------------------------------------------------------------------------------- *)
  (* 6. the field loop of CopyTo *)

  Definition eback (f : field) (gs : list (string * goval)) (v : tfval) : Prop :=
    match fi_parent (f_info f) with
    | None => field_back hook_from f gs v
    | Some (p, z) => pfield_back f p z gs v
    end.

  Definition efield_rt (f : field) (gs : list (string * goval)) : Prop :=
    forall atys attrs ds t, field_ty f = Some t ->
      lookup (snake f) atys = Some t -> lookup (snake f) attrs = None ->
      exists v, to_field hook_to f (GStruct gs) atys (attrs, ds) = Ok (update (snake f) v attrs, ds)
                /\ eback f gs v.

  Lemma to_loop_e l gs atys :
    Forall (fun f => efield_rt f gs) l ->
    (forall f, In f l -> exists t, field_ty f = Some t /\ lookup (snake f) atys = Some t) ->
    NoDup (snakes l) ->
    forall attrs ds, (forall f, In f l -> lookup (snake f) attrs = None) ->
    exists attrs', to_field_list hook_to l (GStruct gs) atys (attrs, ds) = Ok (attrs', ds)
      /\ (forall k, ~ In k (snakes l) -> lookup k attrs' = lookup k attrs)
      /\ (forall f, In f l -> exists v, lookup (snake f) attrs' = Some v /\ eback f gs v).
  Proof.
    induction l as [|f r IH]; intros G A ND attrs ds N; cbn [to_field_list].
    - exists attrs. split; [reflexivity|]. split; [reflexivity|]. intros f [].
    - inversion G as [|? ? Gf Gr]; subst.
      cbn [snakes map] in ND. inversion ND as [|? ? N1 N2]; subst.
      destruct (A f (or_introl eq_refl)) as (t & FT & La).
      destruct (Gf atys attrs ds t FT La (N f (or_introl eq_refl))) as (v & E & Bv).
      rewrite E. cbn [bind].
      destruct (IH Gr (fun f' I => A f' (or_intror I)) N2 (update (snake f) v attrs) ds)
        as (attrs' & E' & L' & B').
      { intros f' I. rewrite lookup_update_neq; [apply N; now right|].
        intros Eq. apply N1. rewrite <- Eq. now apply in_map. }
      exists attrs'. split; [exact E'|]. split.
      + intros k Nk. cbn [snakes map In] in Nk. rewrite L' by tauto. apply lookup_update_neq.
        intros ->. tauto.
      + intros f' [<-|I].
        * rewrite L' by exact N1. rewrite lookup_update_eq. eauto.
        * now apply B'.
  Qed.

  (* --------------------------------------------------------------------------------- *)
  (* 7. the field loop of CopyFrom *)

  Definition ordinary (f : field) : bool :=
    match fi_parent (f_info f) with None => true | Some _ => false end.

  Definition nm (f : field) : string := fi_name (f_info f).

  (* a value of the zero struct: absent, but for a message by value (which is always written) *)
  Definition zabsent (f : field) (v : goval) : Prop :=
    by_value (f_info f) = false -> go_absent (f_info f) (f_msg f) v.

  Lemma absent_pres f p z gs v :
    pcond (f_info f) (f_msg f) p z -> src_absent f p gs -> zabsent f v -> pres f p gs v.
  Proof.
    intros (_ & _ & _ & _ & _ & _ & _ & OM & _) [BF S] Z. specialize (Z BF).
    destruct S as [Lp|(ps & g & Lp & Lg & Ab)].
    - right. auto.
    - left. exists ps, g. split; [exact Lp|]. split; [exact Lg|]. now apply absent_equiv.
  Qed.

  Lemma filter_names_NoDup {A} (g : A -> string) (t : A -> bool) l :
    NoDup (map g l) -> NoDup (map g (filter t l)).
  Proof.
    induction l as [|a r IH]; cbn [map filter]; [auto|]. intros H. inversion H as [|? ? N1 N2]; subst.
    destruct (t a); cbn [map]; [|auto]. constructor; [|auto]. intros X. apply N1.
    apply in_map_iff in X. destruct X as (b & E & I). apply filter_In in I. rewrite <- E. apply in_map. tauto.
  Qed.

  Lemma name_inj {A} (g : A -> string) l a b :
    NoDup (map g l) -> In a l -> In b l -> g a = g b -> a = b.
  Proof.
    induction l as [|c r IH]; cbn [map]; intros ND Ia Ib E; [destruct Ia|].
    inversion ND as [|? ? N1 N2]; subst.
    destruct Ia as [<-|Ia], Ib as [<-|Ib]; auto.
    - exfalso. apply N1. rewrite E. now apply in_map.
    - exfalso. apply N1. rewrite <- E. now apply in_map.
  Qed.

  Section FromLoopE.
    Variables (fs : list field) (os : list string) (gs : list (string * goval)) (attrs : list (string * tfval)).
    Hypothesis NDn : NoDup (map nm fs).
    Hypothesis FCo : forall f, In f fs -> fi_parent (f_info f) = None ->
      fcond SOK os (f_info f) (f_msg f) /\ info_ok (f_info f) (f_msg f) = true
      /\ ~ In (key_of (f_info f)) (parents fs).
    Hypothesis FCp : forall f p z, In f fs -> fi_parent (f_info f) = Some (p, z) ->
      pcond (f_info f) (f_msg f) p z /\ ~ In p os
      /\ exists zs, z = GStruct zs /\
           forall f', In f' fs -> promoted_from p f' -> exists v, lookup (nm f') zs = Some v /\ zabsent f' v.
    Hypothesis BK : forall f, In f fs -> exists v, lookup (snake f) attrs = Some v /\ eback f gs v.

    Definition entries (done : list field) (pt : list (string * goval)) (p : string) : Prop :=
      forall f, In f fs -> promoted_from p f ->
        exists v, lookup (nm f) pt = Some v /\
          ((In (nm f) (map nm done) /\ pres f p gs v) \/ (~ In (nm f) (map nm done) /\ zabsent f v)).

    Definition pinv (done : list field) (tgt : list (string * goval)) (p : string) : Prop :=
      (lookup p tgt = Some (GPtr None) /\ forall f, In f done -> promoted_from p f -> src_absent f p gs)
      \/ exists pt, lookup p tgt = Some (GPtr (Some (GStruct pt))) /\ entries done pt p.

    Definition einv (done : list field) (tgt : list (string * goval)) : Prop :=
      loop_inv os gs (filter ordinary done) tgt /\ forall p, In p (parents fs) -> pinv done tgt p.

    (* a field whose name is not the name of a field promoted from p joins the fields done *)
    Lemma entries_grow done pt p f0 :
      (forall f, In f fs -> promoted_from p f -> nm f <> nm f0) ->
      entries done pt p -> entries (done ++ [f0]) pt p.
    Proof.
      intros NE E f If Pf. destruct (E f If Pf) as (v & Lv & D). exists v. split; [exact Lv|].
      rewrite map_app. cbn [map]. destruct D as [[I Q]|[N Q]]; [left|right]; (split; [|exact Q]).
      - apply in_or_app. now left.
      - intros X. apply in_app_or in X. destruct X as [X|[X|[]]]; [now apply N|]. now apply (NE f If Pf).
    Qed.

    Lemma loop_inv_parent l tgt p x :
      ~ In p os -> (forall f, In f l -> key_of (f_info f) <> p) ->
      loop_inv os gs l tgt -> loop_inv os gs l (update p x tgt).
    Proof.
      intros Np Nk [IF IH]. split.
      - intros [i om] I. specialize (IF _ I). specialize (Nk _ I). cbn [f_info] in Nk.
        rewrite fnf_equiv_eq in *. destruct (fi_placeholder i); [exact IF|].
        now rewrite read_go_update_other.
      - intros h Hh. assert (NE : h <> p) by (intros ->; contradiction).
        destruct (IH h Hh) as [Z|(f0 & t & q & I0 & O0 & L0 & A0)].
        + left. now rewrite lookup_update_neq.
        + right. exists f0, t, q. split; [exact I0|]. split; [exact O0|].
          split; [now rewrite lookup_update_neq|exact A0].
    Qed.

    Lemma filter_ordinary_snoc l f :
      filter ordinary (l ++ [f]) = if ordinary f then filter ordinary l ++ [f] else filter ordinary l.
    Proof. rewrite filter_app. cbn [filter]. destruct (ordinary f); [reflexivity|apply app_nil_r]. Qed.

    Lemma eloop_step pre f post tgt ds2 K :
      fs = pre ++ f :: post -> keys tgt = K ->
      (forall f, In f fs -> fi_parent (f_info f) = None -> In (key_of (f_info f)) K) ->
      einv pre tgt ->
      exists tgt', from_field hook_from f (Some attrs) (GStruct tgt, ds2) = Ok (GStruct tgt', ds2)
                   /\ keys tgt' = K /\ einv (pre ++ [f]) tgt'.
    Proof.
      intros E EK HK [IL IP].
      assert (If : In f fs) by (rewrite E; apply in_or_app; right; now left).
      assert (Ipre : forall f', In f' pre -> In f' fs) by (intros f' I; rewrite E; apply in_or_app; now left).
      assert (Nf : ~ In (nm f) (map nm pre)).
      { rewrite E, map_app in NDn. cbn [map] in NDn. apply NoDup_remove_2 in NDn. intros X. apply NDn.
        apply in_or_app. now left. }
      destruct (fi_parent (f_info f)) as [[p z]|] eqn:Pf.
      - (* a promoted field *)
        destruct (FCp f p z If Pf) as (PCD & Np & zs & -> & ZS).
        destruct (BK f If) as (v & L & FB). unfold eback in FB. rewrite Pf in FB.
        pose proof (in_parents _ _ _ _ If Pf) as Ip.
        assert (ORD : ordinary f = false) by (unfold ordinary; now rewrite Pf).
        assert (OTH : forall q, q <> p -> forall f', In f' fs -> promoted_from q f' -> nm f' <> nm f).
        { intros q Nq f' If' (z' & Pf') Eq. pose proof (name_inj nm fs f' f NDn If' If Eq) as ->. congruence. }
        destruct (FB attrs tgt ds2 L) as [[Ev SA]|Alloc].
        + (* null: the target is left alone *)
          exists tgt. split; [exact Ev|]. split; [exact EK|]. split.
          * now rewrite filter_ordinary_snoc, ORD.
          * intros q Iq. destruct (string_dec q p) as [->|Nq].
            -- destruct (IP p Iq) as [[Lp AB]|(pt & Lp & En)].
               ++ left. split; [exact Lp|]. intros f' I' P'. apply in_app_or in I'.
                  destruct I' as [I'|[<-|[]]]; [now apply AB|exact SA].
               ++ right. exists pt. split; [exact Lp|]. intros f' If' Pf'.
                  destruct (En f' If' Pf') as (w & Lw & D). exists w. split; [exact Lw|]. rewrite map_app. cbn [map].
                  destruct (string_dec (nm f') (nm f)) as [Eq|Ne].
                  ** pose proof (name_inj nm fs f' f NDn If' If Eq) as ->. left.
                     split; [apply in_or_app; right; now left|].
                     destruct D as [[I _]|[_ Z]]; [contradiction|]. exact (absent_pres f p _ gs w PCD SA Z).
                  ** destruct D as [[I Q]|[N Q]]; [left|right]; (split; [|exact Q]).
                     --- apply in_or_app. now left.
                     --- intros X. apply in_app_or in X. destruct X as [X|[X|[]]]; [now apply N|]. now apply Ne.
            -- destruct (IP q Iq) as [[Lq AB]|(pt & Lq & En)].
               ++ left. split; [exact Lq|]. intros f' I' P'. apply in_app_or in I'.
                  destruct I' as [I'|[<-|[]]]; [now apply AB|]. destruct P' as (z' & P'). congruence.
               ++ right. exists pt. split; [exact Lq|]. apply entries_grow; [|exact En]. now apply OTH.
        + (* known: the embedded struct is allocated and written *)
          assert (ST : exists pt, tgt_parent tgt p (GStruct zs) pt /\ entries pre pt p).
          { destruct (IP p Ip) as [[Lp AB]|(pt & Lp & En)].
            - exists zs. split; [left; auto|]. intros f' If' Pf'. destruct (ZS f' If' Pf') as (w & Lw & Zw).
              exists w. split; [exact Lw|].
              destruct (in_dec string_dec (nm f') (map nm pre)) as [I|N]; [left|right; auto].
              split; [exact I|]. apply in_map_iff in I. destruct I as (f'' & Eq & I'').
              pose proof (name_inj nm fs f'' f' NDn (Ipre _ I'') If' Eq) as ->.
              destruct Pf' as (z' & Pf'). destruct (FCp f' p z' If' Pf') as (PCD' & _).
              apply (absent_pres f' p z' gs w PCD'); [|exact Zw]. apply AB; [exact I''|]. now exists z'.
            - exists pt. split; [now right|exact En]. }
          destruct ST as (pt & TP & En).
          assert (Ik : In (nm f) (keys pt)).
          { destruct (En f If (ex_intro _ (GStruct zs) Pf)) as (w & Lw & _). exact (lookup_Some_keys _ _ _ Lw). }
          destruct (Alloc pt TP Ik) as (g' & Ev & PR). fold (nm f) in Ev.
          assert (Kp : In p (keys tgt)).
          { destruct TP as [[Lp _]|Lp]; exact (lookup_Some_keys _ _ _ Lp). }
          eexists. split; [exact Ev|]. split; [rewrite keys_update_same; [exact EK|exact Kp]|]. split.
          * rewrite filter_ordinary_snoc, ORD. apply loop_inv_parent; [exact Np| |exact IL].
            intros f' I'. apply filter_In in I'. destruct I' as [I' O']. unfold ordinary in O'.
            destruct (fi_parent (f_info f')) eqn:P'; [discriminate O'|].
            destruct (FCo f' (Ipre _ I') P') as (_ & _ & NK). intros X. apply NK. now rewrite X.
          * intros q Iq. destruct (string_dec q p) as [->|Nq].
            -- right. eexists. split; [apply lookup_update_eq|]. intros f' If' Pf'.
               rewrite map_app. cbn [map].
               destruct (string_dec (nm f') (nm f)) as [Eq|Ne].
               ++ pose proof (name_inj nm fs f' f NDn If' If Eq) as ->. exists g'.
                  split; [apply lookup_update_eq|]. left. split; [apply in_or_app; right; now left|exact PR].
               ++ destruct (En f' If' Pf') as (w & Lw & D). exists w.
                  split; [rewrite lookup_update_neq; [exact Lw|exact Ne]|].
                  destruct D as [[I Q]|[N Q]]; [left|right]; (split; [|exact Q]).
                  ** apply in_or_app. now left.
                  ** intros X. apply in_app_or in X. destruct X as [X|[X|[]]]; [now apply N|]. now apply Ne.
            -- destruct (IP q Iq) as [[Lq AB]|(pt0 & Lq & En0)].
               ++ left. split; [rewrite lookup_update_neq; [exact Lq|exact Nq]|]. intros f' I' P'. apply in_app_or in I'.
                  destruct I' as [I'|[<-|[]]]; [now apply AB|]. destruct P' as (z' & P'). congruence.
               ++ right. exists pt0. split; [rewrite lookup_update_neq; [exact Lq|exact Nq]|].
                  apply entries_grow; [|exact En0]. now apply OTH.
      - (* an ordinary field *)
        assert (ORD : ordinary f = true) by (unfold ordinary; now rewrite Pf).
        destruct (FCo f If Pf) as (FCf & IOf & NKf).
        assert (EF : filter ordinary fs = filter ordinary pre ++ f :: filter ordinary post).
        { rewrite E, filter_app. cbn [filter]. now rewrite ORD. }
        assert (OIn : forall f', In f' (filter ordinary fs) -> In f' fs /\ fi_parent (f_info f') = None).
        { intros f' I'. apply filter_In in I'. destruct I' as [I' O']. split; [exact I'|]. unfold ordinary in O'.
          now destruct (fi_parent (f_info f')). }
        destruct (loop_step hook_from SOK (filter ordinary fs) os gs attrs) with
            (pre := filter ordinary pre) (f := f) (post := filter ordinary post) (tgt := tgt) (ds2 := ds2) (K := K)
          as (tgt' & Ev & EK' & IL').
        { now apply filter_names_NoDup. }
        { intros f' I'. destruct (OIn f' I') as [I1 P1]. now destruct (FCo f' I1 P1). }
        { intros f' I'. destruct (OIn f' I') as [I1 P1]. destruct (BK f' I1) as (v & L & B). unfold eback in B.
          rewrite P1 in B. eauto. }
        { exact EF. } { exact EK. }
        { intros f' I'. destruct (OIn f' I') as [I1 P1]. now apply HK. }
        { exact IL. }
        exists tgt'. split; [exact Ev|]. split; [exact EK'|]. split.
        + now rewrite filter_ordinary_snoc, ORD.
        + assert (Q : forall q, In q (parents fs) -> lookup q tgt' = lookup q tgt).
          { intros q Iq. apply gfield_eq_lookup. apply (from_field_untouched _ _ _ _ _ _ _ Ev).
            rewrite (info_ok_write_key _ _ IOf). intros [<-|[]]. apply NKf.
            unfold key_of, wkey in *. exact Iq. }
          assert (NP : forall q f', In f' fs -> promoted_from q f' -> nm f' <> nm f).
          { intros q f' If' (z' & Pf') Eq. pose proof (name_inj nm fs f' f NDn If' If Eq) as ->. congruence. }
          intros q Iq. pose proof (IP q Iq) as IPq. unfold pinv in IPq. rewrite <- (Q q Iq) in IPq.
          destruct IPq as [[Lq AB]|(pt0 & Lq & En0)].
          * left. split; [exact Lq|]. intros f' I' P'. apply in_app_or in I'.
            destruct I' as [I'|[<-|[]]]; [now apply AB|]. destruct P' as (z' & P'). congruence.
          * right. exists pt0. split; [exact Lq|]. apply entries_grow; [|exact En0]. now apply (NP q).
    Qed.

    Lemma efrom_loop K :
      (forall f, In f fs -> fi_parent (f_info f) = None -> In (key_of (f_info f)) K) ->
      (forall f, In f fs -> fi_placeholder (f_info f) = false) ->
      forall post pre tgt ds2, fs = pre ++ post -> keys tgt = K -> einv pre tgt ->
      exists tgt', from_field_list hook_from post (Some attrs) (GStruct tgt, ds2) = Ok (GStruct tgt', ds2)
                   /\ keys tgt' = K /\ einv fs tgt'.
    Proof.
      intros HK PHs. induction post as [|f r IH]; intros pre tgt ds2 E EK Inv; cbn [from_field_list].
      - rewrite app_nil_r in E. subst pre. exists tgt. auto.
      - assert (If : In f fs) by (rewrite E; apply in_or_app; right; now left).
        rewrite (PHs f If).
        destruct (eloop_step pre f r tgt ds2 K E EK HK Inv) as (tgt1 & Ev & EK1 & Inv1).
        rewrite Ev. cbn [bind]. apply (IH (pre ++ [f])); [now rewrite <- app_assoc|exact EK1|exact Inv1].
    Qed.
  End FromLoopE.

  (* --------------------------------------------------------------------------------- *)
  (* 8. the class of messages, the values, the zero structs *)

  (* the keys of the struct: the ordinary fields, the holders, the embedded pointers *)
  Definition ekeys (fs : list field) (os : list string) : list string :=
    go_keys (filter ordinary fs) os ++ parents fs.

  Definition ezero_keys_ok (fs : list field) (os : list string) (z : goval) : bool :=
    match z with
    | GStruct zs =>
        forallb (fun k => mem_str k (ekeys fs os)) (keys zs)
        && forallb (fun k => mem_str k (keys zs)) (ekeys fs os)
    | _ => false
    end.

  (* a promoted field: one embedded pointer, no oneof branch, no placeholder, no custom type, of a
     kind K allows; scalars with the attribute kind of their Go type; nested messages rt_ok *)
  Definition pinfo_rt_ok (K : finfo -> bool) (os : list string) (i : finfo) (om : option message) : bool :=
    K i
    && match fi_via i, fi_parent i with
       | [p], Some (p', _) => String.eqb p p' && negb (mem_str p os)
       | _, _ => false
       end
    && match fi_inner i with [] => true | _ => false end
    && match fi_oneof i with None => true | Some _ => false end
    && negb (fi_placeholder i)
    && match fi_kind i with
       | PrimitiveKind | PrimitiveListKind | PrimitiveMapKind =>
           (negb (fi_zero i) || negb (fi_nullable i)) && tfkind_eqb (fi_tk i) (kind_of (fi_cast i))
       | ObjectKind | ObjectListKind | ObjectMapKind => true
       | CustomKind => false
       end
    && match om with Some m' => rt_ok m' | None => is_prim_kind (fi_kind i) end.

  (* an ordinary field: as in rt_ok; it does not write the key of an embedded pointer *)
  Definition ofield_rt_ok (fs : list field) (os : list string) (f : field) : bool :=
    ftf_ok f && fflat_ok f && frt_more os f && negb (fi_placeholder (f_info f))
    && negb (mem_str (key_of (f_info f)) (parents fs)).

  Definition efield_rt_ok (K : finfo -> bool) (fs : list field) (os : list string) (f : field) : bool :=
    if ordinary f then ofield_rt_ok fs os f else pinfo_rt_ok K os (f_info f) (f_msg f).

  Definition rte_ok_gen (K : finfo -> bool) (m : message) : bool :=
    match m with
    | Msg _ fs os _ e z =>
        negb e && nodup_b (snakes fs) && nodup_b (map nm fs) && ezero_keys_ok fs os z
        && forallb (efield_rt_ok K fs os) fs
    end.

  (* the struct holds an ordinary field directly and a promoted field in the struct the embedded
     pointer points to; the embedded pointer may be nil *)
  Definition rte_ftyped (f : field) (gs : list (string * goval)) : Prop :=
    match fi_parent (f_info f) with
    | None => rt_ftyped f gs
    | Some (p, _) => lookup p gs = Some (GPtr None)
                     \/ exists ps, lookup p gs = Some (GPtr (Some (GStruct ps))) /\ rt_ftyped f ps
    end.

  Definition rte_typed (m : message) (obj : goval) : Prop :=
    exists gs, obj = GStruct gs
      /\ (forall k, In k (keys gs) <-> In k (ekeys (m_fields m) (m_oneofs m)))
      /\ (forall h, In h (m_oneofs m) -> holder_ok (m_fields m) h gs)
      /\ Forall (fun f => rte_ftyped f gs) (m_fields m).

  (* the zero value of an embedded struct holds an absent value for every promoted field (any value
     for a message by value); the zero value of a message held by value is a value of the message *)
  Definition rte_zeros (m : message) : Prop :=
    forall f p z, In f (m_fields m) -> fi_parent (f_info f) = Some (p, z) ->
      (exists zs, z = GStruct zs /\
         forall f', In f' (m_fields m) -> promoted_from p f' -> exists v, lookup (nm f') zs = Some v /\ zabsent f' v)
      /\ (by_value (f_info f) = true -> forall m', f_msg f = Some m' -> rt_typed m' (m_zero m')).

  Lemma eresets_ok fs os zs :
    (forall h, In h os -> In h (keys zs)) ->
    (forall f h, In f fs -> fi_oneof (f_info f) = Some h -> fi_parent (f_info f) = None -> In h os) ->
    (forall p, In p (parents fs) -> In p (keys zs) /\ ~ In p os) ->
    exists zs', (do o1 <- fold_res reset_oneof os (GStruct zs);
                 do o2 <- fold_res reset_promoted fs o1;
                 fold_res reset_parent fs o2) = Ok (GStruct zs')
                /\ reset_inv (keys zs) os zs'
                /\ forall p, In p (parents fs) -> lookup p zs' = Some (GPtr None).
  Proof.
    intros HO HF HP.
    destruct (fold_res_struct_inv reset_oneof (fun zs' => keys zs' = keys zs) os) with (zs := zs)
      as (zs1 & E1 & K1); [|reflexivity|].
    { intros h Hh zs0 K0. unfold reset_oneof. rewrite gset_in by (rewrite K0; now apply HO).
      eexists. split; [reflexivity|]. rewrite keys_update_same by (rewrite K0; now apply HO). exact K0. }
    rewrite E1. cbn [bind].
    assert (R1 : reset_inv (keys zs) os zs1).
    { split; [exact K1|]. intros h Hh.
      pose proof (reset_oneofs_nil h os _ _ E1 (or_introl Hh)) as G. now apply gfield_lookup. }
    destruct (fold_res_struct_inv reset_promoted (reset_inv (keys zs) os) fs) with (zs := zs1)
      as (zs2 & E2 & R2); [|exact R1|].
    { intros f Hf zs0 R0. unfold reset_promoted.
      destruct (fi_oneof (f_info f)) as [h|] eqn:Of; [|eauto].
      destruct (fi_parent (f_info f)) eqn:Pf; [eauto|].
      apply reset_inv_set; [|exact R0]. apply HO. now apply (HF f h). }
    rewrite E2. cbn [bind].
    destruct (fold_res_struct_inv reset_parent (reset_inv (keys zs) os) fs) with (zs := zs2)
      as (zs3 & E3 & R3); [|exact R2|].
    { intros f Hf zs0 [K0 N0]. unfold reset_parent. destruct (fi_parent (f_info f)) as [[pn pz]|] eqn:Pf.
      - destruct (HP pn (in_parents _ _ _ _ Hf Pf)) as [Ik No].
        rewrite gset_in by (now rewrite K0). eexists. split; [reflexivity|]. split.
        + rewrite keys_update_same by (now rewrite K0). exact K0.
        + intros h Hh. rewrite lookup_update_neq; [now apply N0|]. intros ->. contradiction.
      - exists zs0. split; [reflexivity|]. now split. }
    exists zs3. split; [exact E3|]. split; [exact R3|].
    intros p Ip. apply gfield_lookup. apply (reset_parents_nil p fs _ _ E3). now left.
  Qed.

  Lemma kind_of_compat c : cast_compat (kind_of c) c = true.
  Proof. now destruct c. Qed.

  (* the class, field by field *)
  Lemma ofield_inv fs os f :
    ofield_rt_ok fs os f = true -> fcasts_in SOK f = true ->
    fcond SOK os (f_info f) (f_msg f) /\ info_ok (f_info f) (f_msg f) = true
    /\ ~ In (key_of (f_info f)) (parents fs)
    /\ (forall m', f_msg f = Some m' -> nested_ok hook_to hook_from m').
  Proof.
    destruct f as [i om]. unfold ofield_rt_ok. cbn [f_info f_msg ftf_ok fflat_ok frt_more fcasts_in]. intros H C.
    apply andb_prop in H. destruct H as [H H5]. apply andb_prop in H. destruct H as [H H4].
    apply andb_prop in H. destruct H as [H H3]. apply andb_prop in H. destruct H as [H1 H2].
    apply andb_prop in H1. destruct H1 as [F1 F2]. apply andb_prop in H2. destruct H2 as [G1 G2].
    apply andb_prop in H3. destruct H3 as [R1 R2]. apply andb_prop in C. destruct C as [C1 C2].
    apply negb_true_iff in H4. apply negb_true_iff in H5.
    split; [now apply fcond_of|]. split; [exact G1|]. split; [now apply mem_str_false|].
    intros m' ->. now apply (rt_mutual hook_to hook_from SOK SRT SZN m').
  Qed.

  Lemma pfield_inv K os i om :
    pinfo_rt_ok K os i om = true -> fcasts_in SOK (Field i om) = true ->
    exists p z, pcond i om p z /\ ~ In p os /\ K i = true.
  Proof.
    unfold pinfo_rt_ok. cbn [fcasts_in]. intros H C. apply andb_prop in C. destruct C as [C1 C2].
    apply andb_prop in H. destruct H as [H H7]. apply andb_prop in H. destruct H as [H H6].
    apply andb_prop in H. destruct H as [H H5]. apply andb_prop in H. destruct H as [H H4].
    apply andb_prop in H. destruct H as [H H3]. apply andb_prop in H. destruct H as [H1 H2].
    destruct (fi_via i) as [|p [|q r]] eqn:V; try discriminate H2.
    destruct (fi_parent i) as [[p' z]|] eqn:P; try discriminate H2.
    apply andb_prop in H2. destruct H2 as [H2 H8]. apply String.eqb_eq in H2. subst p'.
    apply negb_true_iff in H8. apply mem_str_false in H8.
    exists p, z. split; [|split; [exact H8|exact H1]].
    split; [exact V|]. split; [exact P|].
    split; [destruct (fi_inner i); [reflexivity|discriminate]|].
    split; [destruct (fi_oneof i); [discriminate|reflexivity]|].
    split; [destruct (fi_placeholder i); [discriminate|reflexivity]|].
    split; [intros Kc; rewrite Kc in H6; discriminate|].
    split.
    { intros PK. rewrite PK in C1.
      assert (X : (negb (fi_zero i) || negb (fi_nullable i)) && tfkind_eqb (fi_tk i) (kind_of (fi_cast i)) = true)
        by (destruct (fi_kind i); try discriminate PK; exact H6).
      apply andb_prop in X. destruct X as [X1 X2]. split; [now apply tfkind_eqb_eq|]. split; [|exact C1].
      intros Z. rewrite Z in X1. now destruct (fi_nullable i). }
    split.
    { intros PK. destruct om as [m'|]; [eauto|]. rewrite PK in H7. discriminate H7. }
    intros m' ->. unfold rt_ok in H7. apply andb_prop in H7. destruct H7 as [H7 R3].
    apply andb_prop in H7. destruct H7 as [R1 _]. split; [exact R1|]. split; [exact R3|].
    now apply (rt_mutual hook_to hook_from SOK SRT SZN m').
  Qed.

  Lemma pcond_field_ty i om p z : pcond i om p z -> exists t, field_ty (Field i om) = Some t.
  Proof.
    intros (_ & _ & _ & _ & _ & NC & _ & OM & _). cbn [field_ty].
    destruct (fi_kind i); eauto; try (destruct (OM eq_refl) as (m' & ->); eauto). now contradiction NC.
  Qed.

  Lemma in_parents_inv p fs : In p (parents fs) -> exists f z, In f fs /\ fi_parent (f_info f) = Some (p, z).
  Proof.
    unfold parents. intros H. apply in_flat_map in H. destruct H as (f & If & H). unfold parent_of in H.
    destruct (fi_parent (f_info f)) as [[p' z]|] eqn:P; [|destruct H]. destruct H as [<-|[]]. eauto.
  Qed.

  (* --------------------------------------------------------------------------------- *)
  (* 9. the round trip *)

  Theorem copy_round_trip_embedded_in K m obj :
    rte_ok_gen K m = true -> casts_in SOK m = true -> rte_zeros m -> rte_typed m obj ->
    exists t obj',
      copy_to hook_to m obj (VObj (msg_ty m) false false None) = Ok (t, []) /\
      copy_from hook_from m t (m_zero m) = Ok (obj', []) /\
      nfe_equiv m obj' obj.
  Proof.
    destruct m as [n fs os inj e z]. intros R C ZS Ty. cbn [rte_ok_gen] in R. rewrite casts_in_eq in C.
    apply andb_prop in R. destruct R as [R R5]. apply andb_prop in R. destruct R as [R R4].
    apply andb_prop in R. destruct R as [R R3]. apply andb_prop in R. destruct R as [R1 R2].
    destruct e; [discriminate R1|]. clear R1.
    apply nodup_b_NoDup in R2. apply nodup_b_NoDup in R3. rewrite forallb_forall in R5, C.
    unfold ezero_keys_ok in R4. destruct z as [| | | | |zs|]; try discriminate R4.
    apply andb_prop in R4. destruct R4 as [Z1 Z2]. rewrite forallb_forall in Z1, Z2.
    assert (ZK : forall k, In k (keys zs) <-> In k (ekeys fs os)).
    { intros k. split; intros H; apply mem_str_In; auto. }
    unfold rte_zeros in ZS. cbn [m_fields] in ZS.
    destruct Ty as (gs & -> & GK & GH & Ty). cbn [m_fields m_oneofs] in GK, GH, Ty. rewrite Forall_forall in Ty.
    assert (OF : forall f, In f fs -> fi_parent (f_info f) = None ->
                 fcond SOK os (f_info f) (f_msg f) /\ info_ok (f_info f) (f_msg f) = true
                 /\ ~ In (key_of (f_info f)) (parents fs)
                 /\ (forall m', f_msg f = Some m' -> nested_ok hook_to hook_from m')).
    { intros f If Pf. apply ofield_inv; [|now apply C]. specialize (R5 f If). unfold efield_rt_ok, ordinary in R5.
      now rewrite Pf in R5. }
    assert (PF : forall f p z, In f fs -> fi_parent (f_info f) = Some (p, z) ->
                 pcond (f_info f) (f_msg f) p z /\ ~ In p os).
    { intros f p z If Pf. pose proof (R5 f If) as Rf. unfold efield_rt_ok, ordinary in Rf. rewrite Pf in Rf.
      destruct f as [i om]. cbn [f_info f_msg] in *.
      destruct (pfield_inv K os i om Rf (C _ If)) as (p' & z' & PCD & Np & _).
      pose proof PCD as (_ & P' & _). rewrite Pf in P'. inversion P'; subst. auto. }
    assert (PHs : forall f, In f fs -> fi_placeholder (f_info f) = false).
    { intros f If. destruct (fi_parent (f_info f)) as [[p z]|] eqn:Pf.
      - now destruct (PF f p z If Pf) as [(_ & _ & _ & _ & PH & _) _].
      - now destruct (OF f If Pf) as ((_ & _ & PH & _) & _). }
    (* CopyTo *)
    assert (G : Forall (fun f => efield_rt f gs) fs).
    { apply Forall_forall. intros f If. pose proof (Ty f If) as Tf. unfold rte_ftyped in Tf. unfold efield_rt, eback.
      destruct (fi_parent (f_info f)) as [[p z]|] eqn:Pf.
      - destruct (PF f p z If Pf) as [PCD _]. destruct (ZS f p z If Pf) as [_ ZT].
        destruct f as [i om]. cbn [f_info f_msg] in *.
        apply (promoted_field_rt i om p z gs PCD); [|exact Tf].
        intros K0 N0. apply ZT. unfold by_value. now rewrite K0, N0.
      - destruct (OF f If Pf) as (FC & _ & _ & NO). destruct f as [i om]. cbn [f_info f_msg] in *.
        pose proof (MsgRoundTrip.field_step hook_to hook_from SOK SRT SZN os i om FC NO) as FR.
        intros atys attrs ds t FT La Lc. exact (FR gs atys attrs ds t Tf FT La Lc). }
    assert (A : forall f, In f fs -> exists t, field_ty f = Some t /\ lookup (snake f) (fields_ty fs) = Some t).
    { intros f If. assert (FT : exists t, field_ty f = Some t).
      { destruct (fi_parent (f_info f)) as [[p z]|] eqn:Pf.
        - destruct (PF f p z If Pf) as [PCD _]. destruct f as [i om]. exact (pcond_field_ty _ _ _ _ PCD).
        - destruct (OF f If Pf) as ((_ & _ & _ & NC & _ & OM & _) & _). destruct f as [i om].
          cbn [f_info f_msg field_ty] in *.
          destruct (fi_kind i); eauto; try (destruct (OM eq_refl) as (m' & ->); eauto). now contradiction NC. }
      destruct FT as (t & FT). exists t. split; [exact FT|]. now apply lookup_fields_ty. }
    destruct (to_loop_e fs gs (fields_ty fs) G A R2 [] []) as (attrs & Eq & _ & BK); [reflexivity|].
    exists (VObj (fields_ty fs) false false (Some attrs)).
    (* CopyFrom *)
    assert (FCo : forall f, In f fs -> fi_parent (f_info f) = None ->
                  fcond SOK os (f_info f) (f_msg f) /\ info_ok (f_info f) (f_msg f) = true
                  /\ ~ In (key_of (f_info f)) (parents fs)).
    { intros f If Pf. destruct (OF f If Pf) as (X1 & X2 & X3 & _). auto. }
    assert (FCp : forall f p z, In f fs -> fi_parent (f_info f) = Some (p, z) ->
                  pcond (f_info f) (f_msg f) p z /\ ~ In p os
                  /\ exists zs, z = GStruct zs /\
                       forall f', In f' fs -> promoted_from p f' -> exists v, lookup (nm f') zs = Some v /\ zabsent f' v).
    { intros f p z If Pf. destruct (PF f p z If Pf) as [X1 X2]. destruct (ZS f p z If Pf) as [X3 _]. auto. }
    assert (HO : forall h, In h os -> In h (keys zs)).
    { intros h Hh. apply ZK. unfold ekeys, go_keys. apply in_or_app. left. apply in_or_app. now right. }
    assert (HF : forall f h, In f fs -> fi_oneof (f_info f) = Some h -> fi_parent (f_info f) = None -> In h os).
    { intros f h If Of Pf. destruct (OF f If Pf) as ((_ & _ & _ & _ & _ & _ & OO) & _). rewrite Of in OO. tauto. }
    assert (HP : forall p, In p (parents fs) -> In p (keys zs) /\ ~ In p os).
    { intros p Ip. split; [apply ZK; unfold ekeys; apply in_or_app; now right|].
      destruct (in_parents_inv p fs Ip) as (f & z & If & Pf). now destruct (PF f p z If Pf). }
    assert (HK : forall f, In f fs -> fi_parent (f_info f) = None -> In (key_of (f_info f)) (keys zs)).
    { intros f If Pf. apply ZK. unfold ekeys, go_keys, key_of. apply in_or_app. left. apply in_or_app.
      destruct (fi_oneof (f_info f)) as [h|] eqn:Of; [right; now apply (HF f h)|left].
      apply own_names_in; [|now apply PHs|exact Of]. apply filter_In. split; [exact If|]. unfold ordinary. now rewrite Pf. }
    destruct (eresets_ok fs os zs HO HF HP) as (zs' & Er & [KR NR] & PN).
    destruct (efrom_loop fs os gs attrs R3 FCo FCp BK (keys zs) HK PHs fs [] zs' [] eq_refl KR)
      as (tgt & Ef & Kt & [IF IH'] & IP).
    { split; [split; [intros f []|]|].
      - intros h Hh. left. now apply NR.
      - intros p Ip. left. split; [now apply PN|]. intros f []. }
    exists (GStruct tgt). rewrite msg_ty_eq. split; [|split].
    - cbn [copy_to]. rewrite to_fields_list, Eq. reflexivity.
    - cbn [copy_from m_zero]. rewrite from_fields_unfold. cbn [fst snd].
      destruct (fold_res reset_oneof os (GStruct zs)) as [o1|]; cbn [bind] in Er |- *; [|discriminate].
      destruct (fold_res reset_promoted fs o1) as [o2|]; cbn [bind] in Er |- *; [|discriminate].
      rewrite Er. cbn [bind]. exact Ef.
    - exists tgt, gs. split; [reflexivity|]. split; [reflexivity|]. cbn [m_fields m_oneofs].
      split; [|split; [|split]].
      + intros k. rewrite Kt, ZK, GK. reflexivity.
      + intros h Hh. split; [|now apply GH].
        destruct (IH' h Hh) as [Z|(f0 & t & q & I0 & O0 & L0 & _)].
        * exists (GOneof None). split; [exact Z|now left].
        * eexists. split; [exact L0|]. right. exists f0, t. apply filter_In in I0. tauto.
      + intros f If Pf. apply IF. apply filter_In. split; [exact If|]. unfold ordinary. now rewrite Pf.
      + intros p Ip. destruct (in_parents_inv p fs Ip) as (f0 & z0 & If0 & Pf0).
        pose proof (Ty f0 If0) as T0. unfold rte_ftyped in T0. rewrite Pf0 in T0.
        destruct (IP p Ip) as [[Lt AB]|(pt & Lt & En)].
        * left. split; [now left|].
          destruct T0 as [Lp|(ps & Lp & _)]; [now left|]. right. exists ps. split; [exact Lp|].
          intros f If Pf. destruct (AB f If Pf) as [_ [Ln|(ps' & g & Lp' & Lg & Ab)]]; [congruence|].
          rewrite Lp in Lp'. inversion Lp'; subst ps'. eauto.
        * assert (PR : forall f, In f fs -> promoted_from p f -> exists v, lookup (nm f) pt = Some v /\ pres f p gs v).
          { intros f If Pf. destruct (En f If Pf) as (v & Lv & [[_ Q]|[N _]]); [eauto|].
            exfalso. apply N. now apply in_map. }
          destruct T0 as [Lp|(ps & Lp & _)].
          -- left. split; [|now left]. right. exists pt. split; [exact Lt|]. intros f If Pf.
             destruct (PR f If Pf) as (v & Lv & [(ps & g & Lp' & _)|[_ Ab]]); [congruence|eauto].
          -- right. exists pt, ps. split; [exact Lt|]. split; [exact Lp|]. intros f If Pf.
             destruct (PR f If Pf) as (v & Lv & [(ps' & g & Lp' & Lg & Ev)|[Ln _]]); [|congruence].
             rewrite Lp in Lp'. inversion Lp'; subst ps'.
             destruct Pf as (z' & Pf). destruct (PF f p z' If Pf) as [(_ & _ & _ & O & PH & _) _].
             destruct f as [i om]. unfold nm in Lv. cbn [f_info f_msg] in *. rewrite fnf_equiv_eq, PH. exists v, g.
             unfold read_go. rewrite O. auto.
  Qed.
End RTE.

(* ------------------------------------------------------------------------------------- *)
(* 10. C04 for the model, stage by stage *)

(* stage 1: the promoted fields are value scalars with a zero literal *)
Definition K_scalars (i : finfo) : bool :=
  match fi_kind i with PrimitiveKind => negb (fi_nullable i) && fi_zero i | _ => false end.
(* stage 2: scalars (pointers included), lists and maps of scalars *)
Definition K_prims (i : finfo) : bool := is_prim_kind (fi_kind i).
(* stage 3: all six kinds *)
Definition K_all (i : finfo) : bool := true.

Definition rte1_ok : message -> bool := rte_ok_gen K_scalars.
Definition rte2_ok : message -> bool := rte_ok_gen K_prims.
Definition rte_ok : message -> bool := rte_ok_gen K_all.

Lemma rte_ok_gen_mono (K K' : finfo -> bool) m :
  (forall i, K i = true -> K' i = true) -> rte_ok_gen K m = true -> rte_ok_gen K' m = true.
Proof.
  intros HK. destruct m as [n fs os inj e z]. cbn [rte_ok_gen]. intros H.
  apply andb_prop in H. destruct H as [H1 H2]. rewrite H1. cbn [andb].
  rewrite forallb_forall in *. intros f If. specialize (H2 f If). unfold efield_rt_ok in *.
  destruct (ordinary f); [exact H2|]. unfold pinfo_rt_ok in *.
  repeat (apply andb_prop in H2; let X := fresh "X" in destruct H2 as [H2 X]; rewrite X).
  now rewrite (HK _ H2).
Qed.

Lemma rte1_rte2 m : rte1_ok m = true -> rte2_ok m = true.
Proof.
  apply rte_ok_gen_mono. intros i. unfold K_scalars, K_prims. now destruct (fi_kind i).
Qed.

Lemma rte2_rte m : rte2_ok m = true -> rte_ok m = true.
Proof. apply rte_ok_gen_mono. reflexivity. Qed.

Theorem copy_round_trip_embedded_scalars_partial hook_to hook_from m obj :
  rte1_ok m = true -> rte_typed m obj -> rte_zeros m ->
  exists t obj',
    copy_to hook_to m obj (VObj (msg_ty m) false false None) = Ok (t, []) /\
    copy_from hook_from m t (m_zero m) = Ok (obj', []) /\
    nfe_equiv m obj' obj.
Proof.
  intros R Ty Z. apply (copy_round_trip_embedded_in hook_to hook_from (fun _ => true)) with (K := K_scalars); auto.
  - intros s g _. apply scalar_round_trip.
  - intros s g p _. apply scalar_zero_null.
  - apply casts_in_all.
Qed.

Theorem copy_round_trip_embedded_collections_partial hook_to hook_from m obj :
  rte2_ok m = true -> rte_typed m obj -> rte_zeros m ->
  exists t obj',
    copy_to hook_to m obj (VObj (msg_ty m) false false None) = Ok (t, []) /\
    copy_from hook_from m t (m_zero m) = Ok (obj', []) /\
    nfe_equiv m obj' obj.
Proof.
  intros R Ty Z. apply (copy_round_trip_embedded_in hook_to hook_from (fun _ => true)) with (K := K_prims); auto.
  - intros s g _. apply scalar_round_trip.
  - intros s g p _. apply scalar_zero_null.
  - apply casts_in_all.
Qed.

(* the main theorem: all six kinds under the embedded pointer *)
Theorem copy_round_trip_embedded_partial hook_to hook_from m obj :
  rte_ok m = true -> rte_typed m obj -> rte_zeros m ->
  exists t obj',
    copy_to hook_to m obj (VObj (msg_ty m) false false None) = Ok (t, []) /\
    copy_from hook_from m t (m_zero m) = Ok (obj', []) /\
    nfe_equiv m obj' obj.
Proof.
  intros R Ty Z. apply (copy_round_trip_embedded_in hook_to hook_from (fun _ => true)) with (K := K_all); auto.
  - intros s g _. apply scalar_round_trip.
  - intros s g p _. apply scalar_zero_null.
  - apply casts_in_all.
Qed.

(* without float32 scalars: closed under the global context *)
Theorem copy_round_trip_embedded_nofloat32 hook_to hook_from m obj :
  rte_ok m = true -> casts_in not_f32 m = true -> rte_typed m obj -> rte_zeros m ->
  exists t obj',
    copy_to hook_to m obj (VObj (msg_ty m) false false None) = Ok (t, []) /\
    copy_from hook_from m t (m_zero m) = Ok (obj', []) /\
    nfe_equiv m obj' obj.
Proof.
  intros R C Ty Z. apply (copy_round_trip_embedded_in hook_to hook_from not_f32) with (K := K_all); auto.
  - intros s g N. apply scalar_round_trip_nofloat. intros ->. discriminate N.
  - intros s g p N. apply scalar_zero_null_nofloat. intros ->. discriminate N.
Qed.

(* without promoted fields the equivalence is that of MsgRoundTrip *)
Lemma nfe_equiv_nf_equiv n fs os inj z a b :
  (forall f, In f fs -> fi_parent (f_info f) = None) ->
  nfe_equiv (Msg n fs os inj false z) a b <-> nf_equiv (Msg n fs os inj false z) a b.
Proof.
  intros NP. rewrite nf_equiv_eq. unfold nfe_equiv. cbn [m_fields m_oneofs].
  split; intros (ga & gb & -> & -> & H); exists ga, gb; (split; [reflexivity|]); (split; [reflexivity|]).
  - destruct H as (K & HO & F & _). split; [exact K|]. split; [exact HO|]. apply Forall_forall. auto.
  - destruct H as (K & HO & F). rewrite Forall_forall in F. split; [exact K|]. split; [exact HO|]. split; [auto|].
    intros p Ip. destruct (in_parents_inv p fs Ip) as (f & z0 & If & Pf). rewrite (NP f If) in Pf. discriminate Pf.
Qed.

(* ------------------------------------------------------------------------------------- *)
(* 11. the hypotheses are satisfiable; the normal form, observed *)
Module RTEExample.
  Import PGT.Model.Desc PGT.Model.Build.
  Import EmbExample.
  Local Open Scope string_scope.
  Local Open Scope Z_scope.

  Ltac tstep := RTExample.typed_step.

  Ltac zeros_inner If' Pf' :=
    repeat (destruct If' as [<-|If'];
            [vm_compute in Pf';
             first [ discriminate Pf'
                   | eexists; split; [vm_compute; reflexivity|];
                     unfold zabsent, by_value, go_absent; cbn;
                     first [ discriminate | intros _; first [reflexivity | eexists; split; reflexivity] ] ]|]);
    destruct If'.

  Ltac zeros_tac :=
    let f := fresh "f" in let p := fresh "p" in let z := fresh "z" in
    let If := fresh "If" in let Pf := fresh "Pf" in
    intros f p z If Pf; cbn [m_fields] in If;
    repeat (destruct If as [<-|If];
            [vm_compute in Pf;
             first [ discriminate Pf
                   | injection Pf as <- <-; split;
                     [eexists; split; [reflexivity|];
                      let f' := fresh "f'" in let If' := fresh "If'" in let Pf' := fresh "Pf'" in let z' := fresh "z'" in
                      intros f' If' (z' & Pf'); cbn [m_fields] in If'; zeros_inner If' Pf'
                     |unfold by_value; cbn; first [ discriminate | intros _ m' [= <-]; repeat tstep ] ] ]|]);
    destruct If.

  (* the message of EmbeddedProofs: a scalar, a list, a nullable message, a message by value, a map
     of messages and a pointer scalar under the embedded pointer P *)
  Example m_class : rte_ok m = true /\ rte2_ok m = false.
  Proof. split; vm_compute; reflexivity. Qed.

  Example m_zeros : rte_zeros m.
  Proof. unfold rte_zeros. zeros_tac. Qed.

  Ltac typed_tac :=
    eexists; split; [reflexivity|]; split; [intros k; cbn; tauto|]; split; [intros h []|];
    repeat (apply Forall_cons; [unfold rte_ftyped; cbn [f_info fi_parent]; repeat tstep|]); apply Forall_nil.

  Definition pone : goval :=
    GStruct [("S", GPrim (PStr "x")); ("L", GSlice None); ("N", GPtr None); ("V", inn "");
             ("Mm", GMap None); ("T", GPtr None)].
  Definition o_one : goval := GStruct [("X", GPrim (PInt 7)); ("P", GPtr (Some pone))].

  Example nil_typed : rte_typed m o_nil.
  Proof. typed_tac. Qed.
  Example zero_typed : rte_typed m o_zero.
  Proof. typed_tac. Qed.
  Example one_typed : rte_typed m o_one.
  Proof. typed_tac. Qed.
  Example set_typed : rte_typed m o_set.
  Proof. typed_tac. Qed.

  Definition rt (m : message) (o : goval) : option goval :=
    match copy_to std_hook_to m o (VObj (msg_ty m) false false None) with
    | Ok (t, []) => match copy_from std_hook_from m t (m_zero m) with Ok (o', []) => Some o' | _ => None end
    | _ => None
    end.

  (* observed: with a message by value under the embedded pointer, nil comes back as the pointer to
     the zero struct; the zero struct as itself; one scalar set, and full content, as themselves *)
  Example rt_nil : rt m o_nil = Some o_zero.
  Proof. vm_compute. reflexivity. Qed.
  Example rt_zero : rt m o_zero = Some o_zero.
  Proof. vm_compute. reflexivity. Qed.
  Example rt_one : rt m o_one = Some o_one.
  Proof. vm_compute. reflexivity. Qed.
  Example rt_set : rt m o_set = Some o_set.
  Proof. vm_compute. reflexivity. Qed.

  (* the theorem on these values *)
  Example thm_value o : rte_typed m o ->
    exists t obj', copy_to std_hook_to m o (VObj (msg_ty m) false false None) = Ok (t, []) /\
                   copy_from std_hook_from m t (m_zero m) = Ok (obj', []) /\ nfe_equiv m obj' o.
  Proof. intros T. exact (copy_round_trip_embedded_partial std_hook_to std_hook_from m o (proj1 m_class) T m_zeros). Qed.

  Lemma rt_equiv o o' : rte_typed m o -> rt m o = Some o' -> nfe_equiv m o' o.
  Proof.
    intros T R. destruct (thm_value o T) as (t & obj' & E1 & E2 & N). unfold rt in R. rewrite E1, E2 in R.
    now injection R as <-.
  Qed.

  (* nil ~ pointer to the zero struct *)
  Example zero_equiv_nil : nfe_equiv m o_zero o_nil.
  Proof. exact (rt_equiv o_nil o_zero nil_typed rt_nil). Qed.

  (* stage 1: the message m_c of EmbeddedProofs, one scalar under the embedded pointer Q; without a
     message by value nil comes back nil, and so does the pointer to the zero struct *)
  Example c_class : rte1_ok m_c = true.
  Proof. vm_compute. reflexivity. Qed.
  Example c_zeros : rte_zeros m_c.
  Proof. unfold rte_zeros. zeros_tac. Qed.
  Definition c_obj (pv : goval) : goval := GStruct (c_val pv).
  Definition q_of (s : string) : goval := GPtr (Some (GStruct [("W", GPrim (PStr s))])).
  Example c_typed pv : pv = GPtr None \/ (exists s, pv = q_of s) -> rte_typed m_c (c_obj pv).
  Proof. intros [->|(s & ->)]; typed_tac. Qed.
  Example c_rt_nil : rt m_c (c_obj (GPtr None)) = Some (c_obj (GPtr None)).
  Proof. vm_compute. reflexivity. Qed.
  Example c_rt_zero : rt m_c (c_obj (q_of "")) = Some (c_obj (GPtr None)).
  Proof. vm_compute. reflexivity. Qed.
  Example c_rt_w : rt m_c (c_obj (q_of "w")) = Some (c_obj (q_of "w")).
  Proof. vm_compute. reflexivity. Qed.
  Example c_thm pv : pv = GPtr None \/ (exists s, pv = q_of s) ->
    exists t obj', copy_to std_hook_to m_c (c_obj pv) (VObj (msg_ty m_c) false false None) = Ok (t, []) /\
                   copy_from std_hook_from m_c t (m_zero m_c) = Ok (obj', []) /\ nfe_equiv m_c obj' (c_obj pv).
  Proof.
    intros H. exact (copy_round_trip_embedded_scalars_partial std_hook_to std_hook_from m_c _ c_class (c_typed pv H) c_zeros).
  Qed.

  (* the equivalence is not trivial: two set pointers with different scalars; nil and a non-zero scalar *)
  Example c_not_equiv : ~ nfe_equiv m_c (c_obj (q_of "a")) (c_obj (q_of "b")).
  Proof.
    intros (ga & gb & [= <-] & [= <-] & _ & _ & _ & PE). destruct (PE "Q") as [[A _]|(pa & pb & La & Lb & F)].
    { vm_compute. tauto. }
    - destruct A as [A|(ps & A & F)]; [discriminate A|]. injection A as <-.
      destruct (F w_field) as (v & Lv & Ab); [right; left; reflexivity|eexists; reflexivity|].
      injection Lv as <-. discriminate Ab.
    - injection La as <-. injection Lb as <-.
      destruct (F w_field) as (va & vb & Ra & Rb & E); [right; left; reflexivity|eexists; reflexivity|].
      injection Ra as <-. injection Rb as <-. discriminate E.
  Qed.
  Example c_nil_not_equiv : ~ nfe_equiv m_c (c_obj (GPtr None)) (c_obj (q_of "b")).
  Proof.
    intros (ga & gb & [= <-] & [= <-] & _ & _ & _ & PE). destruct (PE "Q") as [[_ B]|(pa & pb & La & _)].
    { vm_compute. tauto. }
    - destruct B as [B|(ps & B & F)]; [discriminate B|]. injection B as <-.
      destruct (F w_field) as (v & Lv & Ab); [right; left; reflexivity|eexists; reflexivity|].
      injection Lv as <-. discriminate Ab.
    - discriminate La.
  Qed.

  (* stage 2: a scalar, a list, a map and a pointer scalar (a timestamp) under the embedded pointer *)
  Definition d_pc : mdesc :=
    {| md_name := "PC"; md_comment := ""; md_oneofs := [];
       md_fields := [fd "s" 1 (PScalar SString) false None false None;
                     fd "l" 2 (PScalar SInt32) true None false None;
                     fd "mp" 3 (PMap (PScalar SString) (PScalar SString)) false None false None;
                     fd "t" 4 PTimestamp false None false None] |}.
  Definition d_outer5 : mdesc :=
    {| md_name := "Outer5"; md_comment := ""; md_oneofs := [];
       md_fields := [fd "x" 1 (PScalar SInt32) false None false None;
                     fd "pc" 2 (PMsg "PC") false (Some true) true None] |}.
  Definition m2 : message :=
    Eval vm_compute in
      match build_message (obs_of cfg) [d_pc; d_outer5] 5 d_outer5 "Outer5" with BOk m => m | _ => dummy end.
  Example m2_class : rte2_ok m2 = true /\ rte1_ok m2 = false.
  Proof. split; vm_compute; reflexivity. Qed.
  Example m2_zeros : rte_zeros m2.
  Proof. unfold rte_zeros. zeros_tac. Qed.
  Definition pc (s : string) (l : option (list goval)) (mp : option (list (string * goval))) (t : option goval) : goval :=
    GPtr (Some (GStruct [("S", GPrim (PStr s)); ("L", GSlice l); ("Mp", GMap mp); ("T", GPtr t)])).
  Definition o2 (pv : goval) : goval := GStruct [("X", GPrim (PInt 1)); ("PC", pv)].
  Example m2_rt_nil : rt m2 (o2 (GPtr None)) = Some (o2 (GPtr None)).
  Proof. vm_compute. reflexivity. Qed.
  (* the empty list and the empty map are absent: the pointer comes back nil *)
  Example m2_rt_empty : rt m2 (o2 (pc "" (Some []) (Some []) None)) = Some (o2 (GPtr None)).
  Proof. vm_compute. reflexivity. Qed.
  (* one non-empty list: the other fields come back as the zero struct holds them *)
  Example m2_rt_list : rt m2 (o2 (pc "" (Some [GPrim (PInt 3)]) (Some []) None))
                       = Some (o2 (pc "" (Some [GPrim (PInt 3)]) None None)).
  Proof. vm_compute. reflexivity. Qed.
  Example m2_rt_full :
    rt m2 (o2 (pc "s" (Some [GPrim (PInt 3)]) (Some [("k", GPrim (PStr "v"))]) (Some (GPrim (PTime 5 6 7)))))
    = Some (o2 (pc "s" (Some [GPrim (PInt 3)]) (Some [("k", GPrim (PStr "v"))]) (Some (GPrim (PTime 5 6 7))))).
  Proof. vm_compute. reflexivity. Qed.
  Example m2_typed : rte_typed m2 (o2 (pc "" (Some [GPrim (PInt 3)]) (Some []) None)).
  Proof. typed_tac. Qed.
  Example m2_thm :
    exists t obj', copy_to std_hook_to m2 (o2 (pc "" (Some [GPrim (PInt 3)]) (Some []) None)) (VObj (msg_ty m2) false false None) = Ok (t, []) /\
                   copy_from std_hook_from m2 t (m_zero m2) = Ok (obj', []) /\
                   nfe_equiv m2 obj' (o2 (pc "" (Some [GPrim (PInt 3)]) (Some []) None)).
  Proof. exact (copy_round_trip_embedded_collections_partial std_hook_to std_hook_from m2 _ (proj1 m2_class) m2_typed m2_zeros). Qed.

  (* outside the class: two levels of pointer embedding, a custom type or a oneof under the pointer *)
  Example outside : rte_ok m_two = false /\ rte_ok m_custom = false /\ rte_ok m_one = false.
  Proof. repeat split; vm_compute; reflexivity. Qed.
End RTEExample.

Print Assumptions copy_round_trip_embedded_nofloat32.
Print Assumptions copy_round_trip_embedded_scalars_partial.
Print Assumptions copy_round_trip_embedded_collections_partial.
Print Assumptions copy_round_trip_embedded_partial.
