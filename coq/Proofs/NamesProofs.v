(* C02, C10, C11: the documented naming rule, the flags and the descriptions, read off the IR. *)
From Coq Require Import List String Ascii Bool Arith NArith Lia.
From PGT Require Import Base.Strs Base.AList Model.Vals Model.IR Model.Names Model.Desc Model.Build.
From PGT Require Import Proofs.FrontEndProofs Proofs.BuildProofs.
Import ListNotations.
Local Open Scope string_scope.

(* ------------------------------------------------------------------------------------- *)
(* A. one field of the descriptor, one field of the IR: name, attribute name, flags *)

(* what BuildField writes into a field that stands for itself *)
Definition single_field_spec (cfg : cfg_obs) (v : fview) (b : bool) (tn fp : string) (i : finfo) : Prop :=
  fi_name i = go_name (v_name v) /\
  fi_path i = fp /\
  fi_snake i = (match o_name_override cfg tn fp with
                | Some s => s
                | None => let j := json_name (v_jsontag v) in
                          if String.eqb j "" then snake_case (v_name v) else j
                end) /\
  fi_required i = o_required cfg tn fp /\
  fi_computed i = o_computed cfg tn fp /\
  fi_sensitive i = o_sensitive cfg tn fp /\
  fi_validators i = (match o_validators cfg tn fp with Some l => l | None => [] end) /\
  fi_planmods i = (match o_planmods cfg tn fp with
                   | Some l => l
                   | None => if o_use_state cfg && o_computed cfg tn fp
                             then ["github.com/hashicorp/terraform-plugin-framework/tfsdk.UseStateForUnknown()"]
                             else []
                   end) /\
  fi_comment i = (if b then "" else field_comment (v_comment v)) /\
  fi_placeholder i = false.

(* GetTerraformType says "message" exactly for the message types that are neither time nor duration *)
Lemma terraform_type_is_msg cfg v fp im tk gs z :
  terraform_type cfg v fp = BOk (im, tk, gs, z) ->
  im = (negb (v_is_time v) && negb (v_is_duration cfg v) && is_message_type (v_type v))%bool.
Proof.
  unfold terraform_type.
  destruct (v_is_time v); [destruct (o_time_type cfg); intros [= <- _ _ _] || discriminate; reflexivity|].
  destruct (v_is_duration cfg v);
    [destruct (o_duration_type cfg); intros [= <- _ _ _] || discriminate; reflexivity|].
  destruct (v_type v) as [s| | | | | |]; try (intros [= <- _ _ _]; reflexivity); try discriminate.
  destruct (scalar_info s). intros [= <- _ _ _]. reflexivity.
Qed.

(* the tail of BuildField (setMapValues, the custom type, the oneof) leaves the names and flags alone *)
Local Ltac single_tail H :=
  match type of H with bbind ?X _ = _ => destruct X as [[[[[[? ?] ?] ?] ?]|]|?|] end;
  cbn [bbind] in H; try discriminate; injection H as <-;
  right; eexists; eexists; (split; [reflexivity|]); unfold single_field_spec; cbn; repeat split.

(* either the field is an embedded message, or it yields exactly one field with the documented
   name, attribute name, flags and description *)
Lemma build_view_cases cfg table rec d v b tn fp o fs :
  build_view cfg table rec d v b tn fp o = BOk fs -> o_excluded cfg tn fp = false ->
  (exists mn, v_type v = PMsg mn /\ v_embed v = true /\ v_is_time v = false /\ v_is_duration cfg v = false) \/
  (exists i om, fs = [Field i om] /\ single_field_spec cfg v b tn fp i).
Proof.
  intros H Hx. unfold build_view in H. rewrite Hx in H.
  destruct (terraform_type cfg v fp) as [[[[im tk] gs] z]|e|] eqn:Et; cbn [bbind] in H; try discriminate.
  apply terraform_type_is_msg in Et.
  match type of H with bbind ?X _ = _ => destruct X as [om|e|] eqn:Eo end; cbn [bbind] in H; try discriminate.
  destruct om as [m'|].
  - destruct (im && negb (v_is_map v) && v_embed v) eqn:Ec.
    + left. apply andb_true_iff in Ec. destruct Ec as [Ec Ee]. rewrite Ec in Eo.
      apply andb_true_iff in Ec. destruct Ec as [Ei _]. rewrite Ei in Et. symmetry in Et.
      apply andb_true_iff in Et. destruct Et as [Et _]. apply andb_true_iff in Et. destruct Et as [Et Ed].
      apply negb_true_iff in Et, Ed.
      destruct (v_type v) as [| |mn| | | |]; try discriminate. exists mn. auto.
    + single_tail H.
  - single_tail H.
Qed.

(* the embedded branch of BuildField: a message field (neither time nor duration, not a map)
   carrying gogoproto.embed *)
Definition embedded_view (cfg : cfg_obs) (v : fview) : bool :=
  negb (v_is_time v) && negb (v_is_duration cfg v) && is_message_type (v_type v)
  && negb (v_is_map v) && v_embed v.

Lemma embedded_view_iff cfg v :
  embedded_view cfg v = true <->
  exists mn, v_type v = PMsg mn /\ v_embed v = true /\ v_is_time v = false /\ v_is_duration cfg v = false.
Proof.
  unfold embedded_view, v_is_map, v_is_time, v_is_duration. split.
  - intros H. repeat (apply andb_true_iff in H; destruct H as [H ?]).
    apply negb_true_iff in H. rewrite negb_true_iff in *.
    destruct (v_type v) as [| |mn| | | |] eqn:Ety; try discriminate.
    + exists mn. auto.
    + rewrite orb_true_r in H. discriminate.
    + match goal with D : _ = false |- _ => rewrite orb_true_r in D; cbn in D; discriminate end.
  - intros (mn & Ety & Ee & Et & Ed). rewrite Ety in *. rewrite Et, Ed, Ee. reflexivity.
Qed.

Lemma build_view_single cfg table rec d v b tn fp o fs :
  build_view cfg table rec d v b tn fp o = BOk fs -> o_excluded cfg tn fp = false ->
  (v_embed v = false \/ is_message_type (v_type v) = false \/ v_is_map v = true \/
   v_is_time v = true \/ v_is_duration cfg v = true) ->
  exists i om, fs = [Field i om] /\
    fi_name i = go_name (v_name v) /\
    fi_path i = fp /\
    fi_snake i = (match o_name_override cfg tn fp with
                  | Some s => s
                  | None => let j := json_name (v_jsontag v) in
                            if String.eqb j "" then snake_case (v_name v) else j
                  end) /\
    fi_required i = o_required cfg tn fp /\
    fi_computed i = o_computed cfg tn fp /\
    fi_sensitive i = o_sensitive cfg tn fp /\
    fi_validators i = (match o_validators cfg tn fp with Some l => l | None => [] end) /\
    fi_planmods i = (match o_planmods cfg tn fp with
                     | Some l => l
                     | None => if o_use_state cfg && o_computed cfg tn fp
                               then ["github.com/hashicorp/terraform-plugin-framework/tfsdk.UseStateForUnknown()"]
                               else []
                     end) /\
    fi_comment i = (if b then "" else field_comment (v_comment v)) /\
    fi_placeholder i = false.
Proof.
  intros H Hx Hs. destruct (build_view_cases _ _ _ _ _ _ _ _ _ _ H Hx) as [(mn & Ety & Ee & Et & Ed)|R].
  - exfalso. unfold v_is_map in Hs. rewrite Ety, Ee, Et, Ed in Hs. cbn in Hs.
    destruct Hs as [?|[?|[?|[?|?]]]]; discriminate.
  - exact R.
Qed.
Print Assumptions build_view_single.

(* the same, with the side condition as one boolean *)
Lemma build_view_not_embedded cfg table rec d v b tn fp o fs :
  build_view cfg table rec d v b tn fp o = BOk fs -> o_excluded cfg tn fp = false ->
  embedded_view cfg v = false ->
  exists i om, fs = [Field i om] /\ single_field_spec cfg v b tn fp i.
Proof.
  intros H Hx Hs. destruct (build_view_cases _ _ _ _ _ _ _ _ _ _ H Hx) as [E|R]; [|exact R].
  apply embedded_view_iff in E. congruence.
Qed.

(* the side condition is exact: an embedded message is replaced by the fields of its message *)
Lemma build_view_embedded cfg table rec d v b tn fp o fs :
  build_view cfg table rec d v b tn fp o = BOk fs -> o_excluded cfg tn fp = false ->
  embedded_view cfg v = true ->
  exists mn d' m', v_type v = PMsg mn /\ find_msg table mn = Some d' /\ rec d' fp = BOk m' /\
    map (fun f => (fi_name (f_info f), fi_snake (f_info f), fi_path (f_info f))) fs =
    map (fun f => (fi_name (f_info f), fi_snake (f_info f), fi_path (f_info f))) (m_fields m').
Proof.
  intros H Hx He. apply embedded_view_iff in He. destruct He as (mn & Ety & Ee & Et & Ed).
  unfold build_view, terraform_type, v_is_map in H. rewrite Hx, Et, Ed, Ety, Ee in H.
  cbn [bbind andb negb] in H.
  destruct (find_msg table mn) as [d'|] eqn:Ef; cbn [bbind] in H; [|discriminate].
  destruct (rec d' fp) as [m'|e|] eqn:Er; cbn [bbind] in H; try discriminate.
  exists mn, d', m'. split; [exact Ety|]. split; [exact Ef|]. split; [exact Er|].
  destruct (negb (v_star v)); injection H as <-; [reflexivity|].
  rewrite map_map. apply map_ext. intros [ci cm]. reflexivity.
Qed.

(* ------------------------------------------------------------------------------------- *)
(* C11: key forms of the field-addressed options *)

Lemma flag_iff l tn p : flag l tn p = true <-> In tn l \/ In p l.
Proof. unfold flag. now rewrite orb_true_iff, !mem_str_In. Qed.
Print Assumptions flag_iff.

Lemma flag_false_iff l tn p : flag l tn p = false <-> ~ In tn l /\ ~ In p l.
Proof.
  rewrite <- not_true_iff_false, flag_iff. tauto.
Qed.

Lemma by_keys_path_first {A} (m : list (string * A)) tn p v :
  lookup p m = Some v -> by_keys m tn p = Some v.
Proof. intros H. unfold by_keys. now rewrite H. Qed.

Lemma by_keys_type_name {A} (m : list (string * A)) tn p :
  lookup p m = None -> by_keys m tn p = lookup tn m.
Proof. intros H. unfold by_keys. now rewrite H. Qed.

Lemma by_keys_none {A} (m : list (string * A)) tn p :
  by_keys m tn p = None <-> lookup p m = None /\ lookup tn m = None.
Proof.
  unfold by_keys. destruct (lookup p m); [split; [discriminate|intros [? _]; discriminate]|tauto].
Qed.

Lemma json_name_spec :
  json_name None = "" /\
  forall s, json_name (Some s) =
            match split_on "," s with j :: _ => if String.eqb j "-" then "" else j | [] => "" end.
Proof. split; reflexivity. Qed.

(* ------------------------------------------------------------------------------------- *)
(* C02: the precedence of the sources of an attribute name, for a configuration as read *)

Section Precedence.
  Variables (c : config) (table : list mdesc) (rec : mdesc -> string -> bres message) (d : mdesc).
  Variables (v : fview) (b : bool) (tn fp : string) (o : option fdesc) (i : finfo) (om : option message).
  Hypothesis Hb : build_view (obs_of c) table rec d v b tn fp o = BOk [Field i om].
  Hypothesis Hx : flag (c_exclude c) tn fp = false.
  Hypothesis Hs : embedded_view (obs_of c) v = false.

  Let spec : single_field_spec (obs_of c) v b tn fp i.
  Proof.
    destruct (build_view_not_embedded _ _ _ _ _ _ _ _ _ _ Hb Hx Hs) as (i' & om' & E & S).
    injection E as <- <-. exact S.
  Qed.

  Let snake_eq :
    fi_snake i = match by_keys (c_name_overrides c) tn fp with
                 | Some s => s
                 | None => if String.eqb (json_name (v_jsontag v)) "" then snake_case (v_name v)
                           else json_name (v_jsontag v)
                 end.
  Proof. destruct spec as (_ & _ & S & _). exact S. Qed.

  (* 1. an override keyed by the full path wins *)
  Lemma override_by_path s : lookup fp (c_name_overrides c) = Some s -> fi_snake i = s.
  Proof. intros H. rewrite snake_eq, (by_keys_path_first _ _ _ _ H). reflexivity. Qed.

  (* 2. then an override keyed by Message.Field *)
  Lemma override_by_type_name s :
    lookup fp (c_name_overrides c) = None -> lookup tn (c_name_overrides c) = Some s -> fi_snake i = s.
  Proof. intros H1 H2. rewrite snake_eq, (by_keys_type_name _ _ _ H1), H2. reflexivity. Qed.

  (* 3. then the name in the json tag *)
  Lemma name_from_json_tag :
    lookup fp (c_name_overrides c) = None -> lookup tn (c_name_overrides c) = None ->
    json_name (v_jsontag v) <> "" -> fi_snake i = json_name (v_jsontag v).
  Proof.
    intros H1 H2 N. rewrite snake_eq, (by_keys_type_name _ _ _ H1), H2.
    apply String.eqb_neq in N. now rewrite N.
  Qed.

  (* 4. then the snake case of the proto name *)
  Lemma name_from_snake_case :
    lookup fp (c_name_overrides c) = None -> lookup tn (c_name_overrides c) = None ->
    json_name (v_jsontag v) = "" -> fi_snake i = snake_case (v_name v).
  Proof. intros H1 H2 E. rewrite snake_eq, (by_keys_type_name _ _ _ H1), H2, E. reflexivity. Qed.

  (* the Go name never depends on the configuration *)
  Lemma go_name_fixed : fi_name i = go_name (v_name v).
  Proof. destruct spec as (S & _). exact S. Qed.

  (* C10/C11: a flag is set exactly when one of the two key forms is listed *)
  Lemma required_iff : fi_required i = true <-> In tn (c_required c) \/ In fp (c_required c).
  Proof. destruct spec as (_ & _ & _ & S & _). rewrite S. apply flag_iff. Qed.

  Lemma computed_iff : fi_computed i = true <-> In tn (c_computed c) \/ In fp (c_computed c).
  Proof. destruct spec as (_ & _ & _ & _ & S & _). rewrite S. apply flag_iff. Qed.

  Lemma sensitive_iff : fi_sensitive i = true <-> In tn (c_sensitive c) \/ In fp (c_sensitive c).
  Proof. destruct spec as (_ & _ & _ & _ & _ & S & _). rewrite S. apply flag_iff. Qed.

  Lemma validators_by_path l : lookup fp (c_validators c) = Some l -> fi_validators i = l.
  Proof.
    intros H. destruct spec as (_ & _ & _ & _ & _ & _ & S & _). rewrite S. cbn [obs_of o_validators].
    now rewrite (by_keys_path_first _ _ _ _ H).
  Qed.

  Lemma validators_by_type_name :
    lookup fp (c_validators c) = None ->
    fi_validators i = match lookup tn (c_validators c) with Some l => l | None => [] end.
  Proof.
    intros H. destruct spec as (_ & _ & _ & _ & _ & _ & S & _). rewrite S. cbn [obs_of o_validators].
    now rewrite (by_keys_type_name _ _ _ H).
  Qed.

  Lemma planmods_by_path l : lookup fp (c_planmods c) = Some l -> fi_planmods i = l.
  Proof.
    intros H. destruct spec as (_ & _ & _ & _ & _ & _ & _ & S & _). rewrite S. cbn [obs_of o_planmods].
    now rewrite (by_keys_path_first _ _ _ _ H).
  Qed.

  (* without configured plan modifiers: UseStateForUnknown exactly for computed fields under the option *)
  Lemma planmods_default :
    lookup fp (c_planmods c) = None -> lookup tn (c_planmods c) = None ->
    fi_planmods i = if c_use_state c && fi_computed i
                    then ["github.com/hashicorp/terraform-plugin-framework/tfsdk.UseStateForUnknown()"]
                    else [].
  Proof.
    intros H1 H2. destruct spec as (_ & _ & _ & _ & Sc & _ & _ & S & _). rewrite S, Sc.
    cbn [obs_of o_planmods o_use_state o_computed]. now rewrite (by_keys_type_name _ _ _ H1), H2.
  Qed.
End Precedence.

(* ------------------------------------------------------------------------------------- *)
(* C02/C10 end to end: every declared field that is neither excluded nor embedded is in the message
   that was built, under its documented names and flags *)

Lemma build_field_list_incl cfg table rec d path l res f x :
  build_field_list cfg table rec d path l = BOk res -> In f l ->
  build_view cfg table rec d (view_of_field f) false (md_name d ++ "." ++ fd_name f)
             (if fd_embed f then path else path ++ "." ++ fd_name f) (Some f) = BOk x ->
  incl x res.
Proof.
  revert res. induction l as [|g r IH]; intros res H Hin Hv; [destruct Hin|].
  rewrite build_field_list_cons in H.
  destruct (build_view cfg table rec d (view_of_field g) false _ _ (Some g)) as [y|e|] eqn:Eg;
    cbn [bbind] in H; try discriminate.
  destruct (build_field_list cfg table rec d path r) as [z|e|] eqn:Er; cbn [bbind] in H; try discriminate.
  injection H as <-. destruct Hin as [->|Hin].
  - rewrite Hv in Eg. injection Eg as <-. now apply incl_appl.
  - apply incl_appr. now apply (IH z).
Qed.

Theorem declared_field_in_message cfg table fuel d path m f :
  build_message cfg table (S fuel) d path = BOk m -> In f (md_fields d) ->
  o_excluded cfg (md_name d ++ "." ++ fd_name f) (path ++ "." ++ fd_name f) = false ->
  fd_embed f = false ->
  exists i om, In (Field i om) (m_fields m) /\
    single_field_spec cfg (view_of_field f) false (md_name d ++ "." ++ fd_name f) (path ++ "." ++ fd_name f) i.
Proof.
  intros H Hin Hx He.
  pose proof (build_message_ok_fields _ _ _ _ _ _ H) as F. rewrite Forall_forall in F.
  destruct (F f Hin) as (x & Hv).
  apply build_message_ok_inv in H. destruct H as (l & Hl & Hc).
  pose proof (build_field_list_incl _ _ _ _ _ _ _ _ _ Hl Hin Hv) as I.
  rewrite He in Hv.
  assert (Hne : embedded_view cfg (view_of_field f) = false).
  { unfold embedded_view. cbn [view_of_field v_embed]. rewrite He. apply andb_false_r. }
  destruct (build_view_not_embedded _ _ _ _ _ _ _ _ _ _ Hv Hx Hne) as (i & om & -> & S).
  exists i, om. split; [|exact S].
  assert (Hil : In (Field i om) l) by (apply I; now left).
  destruct Hc as [(E & _)|(_ & Em & _)]; [subst l; destruct Hil|].
  rewrite Em. destruct (o_sort cfg); [now apply FrontEndProofs.sort_by_perm_in|assumption].
Qed.

(* ------------------------------------------------------------------------------------- *)
(* C. C10: a message gets the placeholder exactly when no field is left: no field declared, or every
   declared field excluded *)

Lemma placeholder_field_spec path :
  exists i, placeholder_field path = Field i None /\
    fi_name i = "active" /\ fi_snake i = "active" /\ fi_path i = path ++ ".active" /\
    fi_kind i = PrimitiveKind /\ fi_tk i = KBool /\ fi_cast i = GsBool /\
    fi_computed i = true /\ fi_required i = false /\ fi_sensitive i = false /\
    fi_placeholder i = true /\ fi_validators i = [] /\ fi_planmods i = [] /\
    fi_comment i = "Automatically generated field preventing empty message errors".
Proof. eexists. split; [reflexivity|]. cbn. repeat split. Qed.

(* the general form: nothing comes out of BuildFields *)
Lemma build_message_no_field_left cfg table fuel d path :
  build_field_list cfg table (build_message cfg table fuel) d path (md_fields d) = BOk [] ->
  exists m, build_message cfg table (S fuel) d path = BOk m /\
    m_fields m = [placeholder_field path] /\ m_empty m = true /\
    m_name m = md_name d /\ m_oneofs m = map go_name (md_oneofs d).
Proof. intros E. rewrite build_message_S, E. cbn [bbind]. eexists. split; [reflexivity|]. cbn. auto. Qed.

Theorem build_message_placeholder cfg table fuel d path m :
  md_fields d = [] -> build_message cfg table (S fuel) d path = BOk m ->
  m_fields m = [placeholder_field path] /\ m_empty m = true /\
  m_name m = md_name d /\ m_oneofs m = map go_name (md_oneofs d).
Proof.
  intros E H. rewrite build_message_S, E in H. cbn [build_field_list bbind] in H. injection H as <-. cbn. auto.
Qed.
Print Assumptions build_message_placeholder.

(* a descriptor without fields always builds (given fuel), whatever the configuration *)
Lemma build_message_placeholder_ok cfg table fuel d path :
  md_fields d = [] -> exists m, build_message cfg table (S fuel) d path = BOk m.
Proof. intros E. rewrite build_message_S, E. cbn [build_field_list bbind]. eauto. Qed.

(* every message that is built has a field *)
Lemma build_message_fields_nonempty cfg table fuel d path m :
  build_message cfg table fuel d path = BOk m -> m_fields m <> [].
Proof.
  destruct fuel as [|fuel]; [discriminate|]. intros H.
  apply build_message_ok_inv in H. destruct H as (l & _ & [(_ & Em & _)|(NE & Em & _)]); rewrite Em.
  - discriminate.
  - destruct (o_sort cfg); [|exact NE]. intros E. apply NE.
    pose proof (FrontEndProofs.sort_by_perm (fun f => fi_name (f_info f)) l) as P.
    rewrite E in P. now apply Permutation.Permutation_nil in P.
Qed.

(* so a declared field contributes nothing exactly when it is excluded (an embedded message always
   contributes: its fields, or its placeholder) *)
Lemma build_view_nil_iff cfg table fuel d v b tn fp o x :
  build_view cfg table (build_message cfg table fuel) d v b tn fp o = BOk x ->
  (x = [] <-> o_excluded cfg tn fp = true).
Proof.
  intros H. destruct (o_excluded cfg tn fp) eqn:Hx.
  - rewrite (build_view_excluded _ _ _ _ _ _ _ _ _ Hx) in H. injection H as <-. tauto.
  - split; [|discriminate]. intros ->. exfalso.
    destruct (embedded_view cfg v) eqn:He.
    + destruct (build_view_embedded _ _ _ _ _ _ _ _ _ _ H Hx He) as (mn & d' & m' & _ & _ & Hm & E).
      apply build_message_fields_nonempty in Hm. destruct (m_fields m'); [now apply Hm|discriminate].
    + destruct (build_view_not_embedded _ _ _ _ _ _ _ _ _ _ H Hx He) as (i & om & E & _). discriminate.
Qed.

Lemma build_field_list_nil_iff cfg table fuel d path l res :
  build_field_list cfg table (build_message cfg table fuel) d path l = BOk res ->
  (res = [] <->
   forall f, In f l ->
     o_excluded cfg (md_name d ++ "." ++ fd_name f) (if fd_embed f then path else path ++ "." ++ fd_name f) = true).
Proof.
  revert res. induction l as [|g r IH]; intros res H.
  - injection H as <-. split; [intros _ f []|reflexivity].
  - rewrite build_field_list_cons in H.
    destruct (build_view cfg table (build_message cfg table fuel) d (view_of_field g) false _ _ (Some g))
      as [x|e|] eqn:Eg; cbn [bbind] in H; try discriminate.
    destruct (build_field_list cfg table (build_message cfg table fuel) d path r) as [y|e|] eqn:Er;
      cbn [bbind] in H; try discriminate.
    injection H as <-. pose proof (build_view_nil_iff _ _ _ _ _ _ _ _ _ _ Eg) as Vg.
    specialize (IH y eq_refl). split.
    + intros E. apply app_eq_nil in E. destruct E as (Ex & Ey). intros f [<-|Hf].
      * now apply Vg.
      * now apply (proj1 IH Ey).
    + intros A. rewrite (proj2 Vg (A g (or_introl eq_refl))), (proj2 IH (fun f Hf => A f (or_intror Hf))).
      reflexivity.
Qed.

(* the fields of a message are all excluded: nothing is built for them, in particular no error can
   come out of them *)
Lemma build_field_list_all_excluded cfg table rec d path l :
  (forall f, In f l ->
     o_excluded cfg (md_name d ++ "." ++ fd_name f) (if fd_embed f then path else path ++ "." ++ fd_name f) = true) ->
  build_field_list cfg table rec d path l = BOk [].
Proof.
  induction l as [|g r IH]; intros A; [reflexivity|].
  rewrite build_field_list_cons, build_view_excluded by (apply A; now left).
  cbn [bbind]. rewrite IH by (intros f Hf; apply A; now right). reflexivity.
Qed.

(* and only then: the message counts as empty (and then has exactly the placeholder) iff no field is
   left, that is, iff every declared field is excluded -- in particular when none is declared *)
Lemma build_message_empty_iff cfg table fuel d path m :
  build_message cfg table (S fuel) d path = BOk m ->
  (m_empty m = true <->
   forall f, In f (md_fields d) ->
     o_excluded cfg (md_name d ++ "." ++ fd_name f) (if fd_embed f then path else path ++ "." ++ fd_name f) = true) /\
  (m_empty m = true <-> build_field_list cfg table (build_message cfg table fuel) d path (md_fields d) = BOk []) /\
  (m_empty m = true -> m_fields m = [placeholder_field path]) /\
  (md_fields d = [] -> m_empty m = true).
Proof.
  intros H. apply build_message_ok_inv in H. destruct H as (l & Hl & Hc).
  pose proof (build_field_list_nil_iff _ _ _ _ _ _ _ Hl) as N.
  assert (E : m_empty m = true <-> l = []).
  { destruct Hc as [(-> & _ & ->)|(NE & _ & ->)]; [tauto|]. split; [discriminate|contradiction]. }
  split; [now rewrite E|]. split; [|split].
  - rewrite E, Hl. split; [now intros ->|now intros [= ->]].
  - intros T. apply E in T. destruct Hc as [(_ & Em & _)|(NE & _)]; [exact Em|contradiction].
  - intros D. apply E, N. rewrite D. intros f [].
Qed.

(* C10/C11: a message whose declared fields are all excluded is built (whatever the types of its
   fields), gets exactly the placeholder field and counts as empty, like a message without fields *)
Theorem build_message_all_excluded_placeholder cfg table fuel d path :
  (forall f, In f (md_fields d) ->
     o_excluded cfg (md_name d ++ "." ++ fd_name f) (if fd_embed f then path else path ++ "." ++ fd_name f) = true) ->
  exists m, build_message cfg table (S fuel) d path = BOk m /\
    m_fields m = [placeholder_field path] /\ m_empty m = true /\
    m_name m = md_name d /\ m_oneofs m = map go_name (md_oneofs d).
Proof. intros A. apply build_message_no_field_left. now apply build_field_list_all_excluded. Qed.
Print Assumptions build_message_all_excluded_placeholder.
Print Assumptions build_message_empty_iff.

(* by computation: (a) no field declared, (b) both fields excluded (message-qualified keys), (c) one of
   two fields excluded, (d) an embedded message whose fields are all excluded contributes its placeholder *)
Module PlaceholderExamples.
  Definition fd (n : string) (num : Z) (t : ptype) (embed : bool) : fdesc :=
    {| fd_name := n; fd_num := num; fd_type := t; fd_repeated := false; fd_nullable := Some false;
       fd_embed := embed; fd_cast := ""; fd_custom := ""; fd_stdtime := false; fd_stddur := false;
       fd_jsontag := None; fd_oneof := None; fd_comment := "" |}.
  Definition d_none : mdesc := {| md_name := "None"; md_comment := ""; md_oneofs := []; md_fields := [] |}.
  Definition d_ab : mdesc :=
    {| md_name := "AB"; md_comment := ""; md_oneofs := [];
       md_fields := [fd "A" (Zpos xH) (PScalar SString) false; fd "B" (Zpos (xO xH)) (PScalar SInt64) false] |}.
  Definition d_outer : mdesc :=
    {| md_name := "Outer"; md_comment := ""; md_oneofs := [];
       md_fields := [fd "AB" (Zpos xH) (PMsg "AB") true; fd "n" (Zpos (xO xH)) (PScalar SBool) false] |}.
  Definition table := [d_none; d_ab; d_outer].
  Definition cfg0 (ex : list string) : config :=
    {| c_types := ["None"; "AB"; "Outer"]; c_duration_custom_type := ""; c_exclude := ex; c_computed := [];
       c_required := []; c_sensitive := []; c_target_pkg := ""; c_default_pkg := ""; c_sort := true;
       c_use_state := false; c_suffixes := []; c_name_overrides := []; c_validators := [];
       c_planmods := []; c_time_type := false; c_duration_type := false; c_injected := [];
       c_import_overrides := []; c_custom_types := [] |}.
  Definition shape (r : bres message) : bres (list field * bool) :=
    match r with BOk m => BOk (m_fields m, m_empty m) | BErr e => BErr e | BFuel => BFuel end.
  Definition names_of (r : bres message) : bres (list string * bool) :=
    match r with BOk m => BOk (map (fun f => fi_path (f_info f)) (m_fields m), m_empty m) | BErr e => BErr e | BFuel => BFuel end.

  Example a_no_field :
    shape (build_message (obs_of (cfg0 [])) table 4 d_none "None") = BOk ([placeholder_field "None"], true).
  Proof. vm_compute. reflexivity. Qed.
  Example b_all_excluded :
    shape (build_message (obs_of (cfg0 ["AB.A"; "AB.B"])) table 4 d_ab "AB") = BOk ([placeholder_field "AB"], true).
  Proof. vm_compute. reflexivity. Qed.
  Example b_all_excluded_by_theorem :
    exists m, build_message (obs_of (cfg0 ["AB.A"; "AB.B"])) table 4 d_ab "AB" = BOk m /\
      m_fields m = [placeholder_field "AB"] /\ m_empty m = true.
  Proof.
    destruct (build_message_all_excluded_placeholder (obs_of (cfg0 ["AB.A"; "AB.B"])) table 3 d_ab "AB")
      as (m & H & F & E & _); [|eauto].
    intros f [<-|[<-|[]]]; reflexivity.
  Qed.
  Example c_one_excluded :
    names_of (build_message (obs_of (cfg0 ["AB.A"])) table 4 d_ab "AB") = BOk (["AB.B"], false) /\
    names_of (build_message (obs_of (cfg0 [])) table 4 d_ab "AB") = BOk (["AB.A"; "AB.B"], false).
  Proof. split; vm_compute; reflexivity. Qed.
  Example d_embedded_all_excluded :
    names_of (build_message (obs_of (cfg0 ["AB.A"; "AB.B"])) table 4 d_outer "Outer")
    = BOk (["Outer.n"; "Outer.active"], false).   (* sorted by Go name: "N" before "active" *)
  Proof. vm_compute. reflexivity. Qed.
End PlaceholderExamples.

(* no field built from a declared field is a placeholder *)
Lemma build_view_single_not_placeholder cfg table rec d v b tn fp o i om :
  build_view cfg table rec d v b tn fp o = BOk [Field i om] -> o_excluded cfg tn fp = false ->
  embedded_view cfg v = false -> fi_placeholder i = false.
Proof.
  intros H Hx Hs. destruct (build_view_not_embedded _ _ _ _ _ _ _ _ _ _ H Hx Hs) as (i' & om' & E & S).
  injection E as <- <-. apply S.
Qed.

(* ------------------------------------------------------------------------------------- *)
(* B. C10: descriptions. The leading comment, flattened to one trimmed line *)

Definition newline : ascii := ascii_of_nat 10.

(* --- append, reverse --- *)
Lemma sapp_nil_r (s : string) : s ++ "" = s.
Proof. induction s; cbn; congruence. Qed.

Lemma sapp_assoc (a b c : string) : (a ++ b) ++ c = a ++ (b ++ c).
Proof. induction a; cbn; congruence. Qed.

Lemma rev_str_aux_app s acc : rev_str_aux s acc = rev_str s ++ acc.
Proof.
  unfold rev_str. revert acc. induction s as [|c r IH]; intros acc; cbn; [reflexivity|].
  rewrite IH, (IH (String c "")), sapp_assoc. reflexivity.
Qed.

Lemma rev_str_cons c s : rev_str (String c s) = rev_str s ++ String c "".
Proof. unfold rev_str at 1. cbn. apply rev_str_aux_app. Qed.

Lemma rev_str_app a b : rev_str (a ++ b) = rev_str b ++ rev_str a.
Proof.
  induction a as [|c a IH]; cbn [append]; [now rewrite sapp_nil_r|].
  now rewrite !rev_str_cons, IH, sapp_assoc.
Qed.

Lemma rev_str_invol s : rev_str (rev_str s) = s.
Proof.
  induction s as [|c s IH]; [reflexivity|].
  rewrite rev_str_cons, rev_str_app, IH. reflexivity.
Qed.

(* --- occurrences of a character --- *)
Lemma contains_char_app c a b : contains_char c (a ++ b) = contains_char c a || contains_char c b.
Proof. induction a as [|d a IH]; cbn; [reflexivity|]. now rewrite IH, orb_assoc. Qed.

Lemma contains_char_rev c s : contains_char c (rev_str s) = contains_char c s.
Proof.
  induction s as [|d s IH]; [reflexivity|].
  rewrite rev_str_cons, contains_char_app, IH. cbn. rewrite orb_false_r. apply orb_comm.
Qed.

Lemma contains_char_drop_while c p s :
  contains_char c s = false -> contains_char c (drop_while p s) = false.
Proof.
  induction s as [|d s IH]; cbn; [reflexivity|]. intros H.
  destruct (p d); [|exact H]. apply orb_false_iff in H. now apply IH.
Qed.

Lemma contains_char_trim c p s : contains_char c s = false -> contains_char c (trim p s) = false.
Proof.
  intros H. unfold trim, trim_right, trim_left.
  rewrite contains_char_rev. apply contains_char_drop_while.
  rewrite contains_char_rev. now apply contains_char_drop_while.
Qed.

Lemma contains_char_join c sep l :
  contains_char c sep = false -> Forall (fun x => contains_char c x = false) l ->
  contains_char c (join sep l) = false.
Proof.
  intros Hs. induction 1 as [|x r Hx Hr IH]; [reflexivity|].
  destruct r as [|y r]; [exact Hx|].
  change (join sep (x :: y :: r)) with (x ++ sep ++ join sep (y :: r)).
  now rewrite !contains_char_app, Hx, Hs, IH.
Qed.

(* --- strings.Split --- *)
(* the pieces do not contain the separator *)
Lemma split_on_aux_pieces sep s cur :
  contains_char sep cur = false ->
  Forall (fun x => contains_char sep x = false) (split_on_aux sep s cur).
Proof.
  revert cur. induction s as [|c r IH]; intros cur H; cbn.
  - constructor; [|constructor]. now rewrite contains_char_rev.
  - destruct (ascii_eqb c sep) eqn:E.
    + constructor; [now rewrite contains_char_rev|]. now apply IH.
    + apply IH. cbn. unfold ascii_eqb in *. now rewrite Ascii.eqb_sym, E.
Qed.

Lemma split_on_pieces sep s : Forall (fun x => contains_char sep x = false) (split_on sep s).
Proof. now apply split_on_aux_pieces. Qed.

(* a string without the separator is its only piece *)
Lemma split_on_aux_absent sep s cur :
  contains_char sep s = false -> split_on_aux sep s cur = [rev_str cur ++ s].
Proof.
  revert cur. induction s as [|c r IH]; intros cur H; cbn.
  - now rewrite sapp_nil_r.
  - cbn in H. apply orb_false_iff in H. destruct H as [H1 H2].
    unfold ascii_eqb in *. rewrite Ascii.eqb_sym, H1, (IH _ H2), rev_str_cons, sapp_assoc. reflexivity.
Qed.

Lemma split_on_absent sep s : contains_char sep s = false -> split_on sep s = [s].
Proof. intros H. unfold split_on. now rewrite split_on_aux_absent. Qed.

(* --- strings.Trim --- *)
(* the first character, when there is one, is not in the cut set *)
Definition head_kept (p : ascii -> bool) (s : string) : Prop :=
  match s with EmptyString => True | String c _ => p c = false end.

Lemma drop_while_head p s : head_kept p (drop_while p s).
Proof. induction s as [|c s IH]; cbn; [exact I|]. destruct (p c) eqn:E; [exact IH|exact E]. Qed.

Lemma drop_while_fix p s : head_kept p s -> drop_while p s = s.
Proof. destruct s as [|c s]; cbn; [reflexivity|]. now intros ->. Qed.

Lemma head_kept_app p a b : a <> "" -> head_kept p a -> head_kept p (a ++ b).
Proof. destruct a; [congruence|auto]. Qed.

(* dropping a prefix keeps the last character *)
Lemma drop_while_last p s : head_kept p (rev_str s) -> head_kept p (rev_str (drop_while p s)).
Proof.
  induction s as [|c s IH]; cbn [drop_while]; [auto|]. intros H.
  destruct (p c) eqn:E; [|exact H]. apply IH.
  rewrite rev_str_cons in H. destruct (rev_str s) as [|e t]; [|exact H].
  cbn in H. congruence.
Qed.

Lemma trim_head p s : head_kept p (trim p s).
Proof.
  unfold trim, trim_right, trim_left. apply drop_while_last.
  rewrite rev_str_invol. apply drop_while_head.
Qed.

Lemma trim_last p s : head_kept p (rev_str (trim p s)).
Proof. unfold trim, trim_right. rewrite rev_str_invol. apply drop_while_head. Qed.

Lemma trim_fix p s : head_kept p s -> head_kept p (rev_str s) -> trim p s = s.
Proof.
  intros H1 H2. unfold trim, trim_right, trim_left.
  now rewrite (drop_while_fix _ _ H1), (drop_while_fix _ _ H2), rev_str_invol.
Qed.

Lemma trim_idem p s : trim p (trim p s) = trim p s.
Proof. apply trim_fix; [apply trim_head|apply trim_last]. Qed.

Lemma trim_space_idem s : trim_space (trim_space s) = trim_space s.
Proof. apply trim_idem. Qed.

(* strings.TrimSpace leaves no white space at either end *)
Lemma trim_space_ends s :
  match first_char (trim_space s) with Some c => is_space c = false | None => True end /\
  match first_char (rev_str (trim_space s)) with Some c => is_space c = false | None => True end.
Proof.
  pose proof (trim_head is_space s) as H1. pose proof (trim_last is_space s) as H2.
  unfold trim_space, head_kept, first_char in *.
  split; [destruct (trim is_space s)|destruct (rev_str (trim is_space s))]; assumption.
Qed.

Lemma trim_space_no_char c s : contains_char c s = false -> contains_char c (trim_space s) = false.
Proof. apply contains_char_trim. Qed.

(* --- Comment.ToSingleLine --- *)
Lemma to_single_line_no_newline s : contains_char newline (to_single_line s) = false.
Proof.
  unfold to_single_line. apply trim_space_no_char. apply contains_char_join; [reflexivity|].
  apply Forall_forall. intros x Hx. apply in_map_iff in Hx. destruct Hx as (y & <- & Hy).
  apply trim_space_no_char.
  pose proof (split_on_pieces newline s) as F. rewrite Forall_forall in F. now apply F.
Qed.
Print Assumptions to_single_line_no_newline.

Lemma to_single_line_trimmed s : trim_space (to_single_line s) = to_single_line s.
Proof. unfold to_single_line. apply trim_space_idem. Qed.

Lemma to_single_line_ends s :
  match first_char (to_single_line s) with Some c => is_space c = false | None => True end /\
  match first_char (rev_str (to_single_line s)) with Some c => is_space c = false | None => True end.
Proof. unfold to_single_line. apply trim_space_ends. Qed.

Lemma to_single_line_single s : contains_char newline s = false -> to_single_line s = trim_space s.
Proof.
  intros H. unfold to_single_line. fold newline. rewrite (split_on_absent _ _ H). cbn [map join].
  apply trim_space_idem.
Qed.

Lemma to_single_line_idem s : to_single_line (to_single_line s) = to_single_line s.
Proof.
  rewrite (to_single_line_single _ (to_single_line_no_newline s)). apply to_single_line_trimmed.
Qed.
Print Assumptions to_single_line_idem.

(* the description of a field: one line, no white space around it *)
Theorem field_comment_one_line raw :
  contains_char newline (field_comment raw) = false /\
  trim_space (field_comment raw) = field_comment raw /\
  to_single_line (field_comment raw) = field_comment raw.
Proof.
  unfold field_comment. split; [apply to_single_line_no_newline|].
  split; [apply to_single_line_trimmed|apply to_single_line_idem].
Qed.

(* a comment that already is one line is only trimmed *)
Lemma field_comment_single raw : contains_char newline raw = false -> field_comment raw = trim_space raw.
Proof.
  intros H. unfold field_comment.
  assert (H1 : contains_char newline (trim_nl raw) = false) by now apply contains_char_trim.
  assert (H2 : contains_char newline (trim_space (trim_nl raw)) = false) by now apply trim_space_no_char.
  rewrite (to_single_line_single _ H2), trim_space_idem.
  (* nothing to cut: a string without newline has none at its ends *)
  unfold trim_nl. rewrite trim_fix; [reflexivity| |].
  - destruct raw as [|c r]; [exact I|]. cbn in H |- *. apply orb_false_iff in H. destruct H as [H _].
    unfold is_nl, newline, ascii_eqb in *. destruct (N.eqb_spec (code c) 10) as [E|]; [|reflexivity].
    apply (f_equal ascii_of_N) in E. unfold code in E. rewrite ascii_N_embedding in E. subst c. discriminate.
  - rewrite <- contains_char_rev in H. destruct (rev_str raw) as [|c r]; [exact I|].
    cbn in H |- *. apply orb_false_iff in H. destruct H as [H _].
    unfold is_nl, newline, ascii_eqb in *. destruct (N.eqb_spec (code c) 10) as [E|]; [|reflexivity].
    apply (f_equal ascii_of_N) in E. unfold code in E. rewrite ascii_N_embedding in E. subst c. discriminate.
Qed.

(* sanity: the model computes what comments.go and GetJSONName compute on small inputs *)
Example to_single_line_example :
  to_single_line (" The user name." ++ nl ++ "   Must be unique.  " ++ nl) = "The user name. Must be unique.".
Proof. reflexivity. Qed.

Example json_name_examples :
  json_name (Some "user_id,omitempty") = "user_id" /\ json_name (Some "-") = "" /\
  json_name (Some ",omitempty") = "" /\ json_name None = "".
Proof. repeat split. Qed.
