(* C05 for messages WITH fields promoted from nullable (pointer) embedded messages: the result of
   Copy<T>FromTerraform does not depend on what the target struct held before, the content under the
   embedded pointers included (copy_from_prior_independent_embedded_partial, ..._lookup_partial,
   ..._eq_partial), and an object whose attributes are all null or unknown resets the struct: embedded
   pointers nil, holders nil, ordinary fields zero (copy_from_all_null_resets_embedded_partial).

   Method: the lock step of PriorProofs.v ([kinv]: the two targets keep their key lists and agree
   under the keys written so far).  The three reset loops at the head of CopyFrom put every oneof
   holder and every OUTERMOST embedded pointer among the agreed keys (reset_parent_rel of
   PriorProofs.v).  From there on a promoted field reads and writes the target under its outermost
   embedded pointer only: allocateEmbedded (alloc_chain_rel), the assignment through the pointers
   (gset_via_rel) and the read handed to a custom type's function (gget_via_rel) are functions of the
   value under that key and of the recorded ZERO structs, not of the prior.  So the two runs stay in
   lock step (from_field_promoted_rel), whatever the attribute of the promoted field holds.

   Class [pe_ok], on the top-level fields only: an ordinary field is reached directly and is no custom
   type (pi_field_ok of PriorProofs.v); a promoted field has a path which starts with the pointer
   recorded in fi_parent.  NOTHING else: chains of any length, custom types and oneof branches under
   the embedded pointer, any zero structs (emb_zeros is not needed), any nested messages.  The classes
   emb_ok (EmbeddedProofs.v) and embc_ok (ChainProofs.v) are included when no ordinary field is a
   custom type (emb_from_ok_pe_ok, embc_from_ok_pe_ok).

   Hypothesis on the object, [tf_eshaped], the weakest one: tf_shaped of PriorProofs.v for the ORDINARY
   fields only.  The attribute of a promoted field may be missing or ill-kinded: after the reset the
   embedded pointer is nil, so the field cannot keep prior content
   (PriorEmbExample.missing_promoted_does_not_keep_prior); for an ordinary field the hypothesis is
   needed (missing_ordinary_keeps_prior).  Without any hypothesis on the object the results still
   agree under every embedded pointer and holder (copy_from_prior_agree_embedded_partial).

   Priors, [prior_emb_keys] / [prior_emb_ok]: structs whose keys are the ordinary Go fields, the
   outermost embedded pointers and the holders; ARBITRARY values under them (an embedded pointer nil,
   set with content and inner pointers set, or ill-typed).  The keys must be the same in the two
   priors (keys_needed); for the syntactic equality they come in the same order, each once. *)
From Coq Require Import List String Bool ZArith Lia Permutation.
From Coq Require Import Floats.SpecFloat.
From PGT Require Import Base.Strs Base.AList Model.Vals Model.IR Model.CopyFrom.
From PGT Require Import Proofs.CopyFromProofs Proofs.CopyToTotal Proofs.MsgRoundTrip Proofs.PriorProofs.
From PGT Require Import Proofs.EmbeddedProofs Proofs.ChainProofs.
Import ListNotations.

(* ------------------------------------------------------------------------------------- *)
(* 1. the lock step under an embedded pointer *)

Section EmbLockStep.
  Variables K1 K2 : list string.
  Hypothesis HK : forall k, In k K1 <-> In k K2.

  Local Notation kinv' := (kinv K1 K2).
  Local Notation rel_obj' := (rel_obj K1 K2).
  Local Notation rel_res' := (rel_res K1 K2).

  Lemma kinv_agree W a b p : kinv' W a b -> In p W -> lookup p b = lookup p a.
  Proof. intros (_ & _ & H3) Hp. symmetry. now apply H3. Qed.

  Lemma gset_rel_in W a b k v :
    kinv' W a b -> In k W -> rel_obj' W (gset (GStruct a) k v) (gset (GStruct b) k v).
  Proof.
    intros HI Hk. apply (rel_obj_mono K1 K2 (k :: W)); [|now apply gset_rel].
    intros x Hx. now right.
  Qed.

  (* allocateEmbedded reads and writes the target under the outermost embedded pointer only *)
  Lemma alloc_chain_rel W a b p pz r :
    kinv' W a b -> In p W ->
    rel_obj' W (alloc_chain (GStruct a) ((p, pz) :: r)) (alloc_chain (GStruct b) ((p, pz) :: r)).
  Proof.
    intros HI Hp. cbn [alloc_chain gfield]. rewrite (kinv_agree W a b p HI Hp).
    destruct (lookup p a) as [pv|]; cbn [bind]; [|exact I].
    destruct pv as [| |[inner|]| | | |]; try exact I.
    - destruct r as [|q r']; [exact HI|].
      destruct (alloc_chain inner (q :: r')) as [inner'|]; cbn [bind]; [|exact I].
      now apply gset_rel_in.
    - destruct (alloc_chain pz r) as [z|]; cbn [bind]; [|exact I].
      now apply gset_rel_in.
  Qed.

  Lemma alloc_parent_rel W a b i p z :
    fi_parent i = Some (p, z) -> kinv' W a b -> In p W ->
    rel_obj' W (alloc_parent i (GStruct a)) (alloc_parent i (GStruct b)).
  Proof. intros P HI Hp. unfold alloc_parent. rewrite P. now apply alloc_chain_rel. Qed.

  (* so does the assignment through the embedded pointers *)
  Lemma gset_via_rel W a b p r n v :
    kinv' W a b -> In p W ->
    rel_obj' W (gset_via (GStruct a) (p :: r) n v) (gset_via (GStruct b) (p :: r) n v).
  Proof.
    intros HI Hp. cbn [gset_via gfield]. rewrite (kinv_agree W a b p HI Hp).
    destruct (lookup p a) as [pv|]; cbn [bind]; [|exact I].
    destruct pv as [| |[inner|]| | | |]; try exact I.
    destruct (gset_via inner r n v) as [inner'|]; cbn [bind]; [|exact I].
    now apply gset_rel_in.
  Qed.

  (* ... and the read through them *)
  Lemma gget_via_rel W a b p r n :
    kinv' W a b -> In p W -> gget_via (GStruct b) (p :: r) n = gget_via (GStruct a) (p :: r) n.
  Proof. intros HI Hp. cbn [gget_via gfield]. now rewrite (kinv_agree W a b p HI Hp). Qed.

  Lemma rel_bind_obj W W' r1 r2 (c1 c2 : goval -> res fstate) :
    rel_obj' W r1 r2 ->
    (forall a' b', kinv' W a' b' -> rel_res' W' (c1 (GStruct a')) (c2 (GStruct b'))) ->
    rel_res' W' (bind r1 c1) (bind r2 c2).
  Proof.
    intros HG HC.
    destruct r1 as [[| | | | |a'|]|], r2 as [[| | | | |b'|]|];
      cbn [rel_obj] in HG; try contradiction; cbn [bind]; [now apply HC|exact I].
  Qed.

  Ltac incl_tac := let k := fresh "k" in let Hk := fresh "Hk" in
                   intros k Hk; cbn in Hk |- *; tauto.

  Ltac inner x :=
    lazymatch x with
    | match ?y with _ => _ end => inner y
    | _ => destruct x
    end.

  Ltac prel_step P Hp :=
    match goal with
    | |- rel_res _ _ _ Panic Panic => exact I
    | HI : kinv _ _ _ ?a ?b |- rel_res _ _ _ (Ok (GStruct ?a, _)) (Ok (GStruct ?b, _)) =>
        split; [reflexivity|exact HI]
    | HI : kinv _ _ ?W ?a ?b |- rel_res _ _ _ (bind (alloc_parent ?i (GStruct ?a)) _) (bind (alloc_parent ?i (GStruct ?b)) _) =>
        let a' := fresh "a" in let b' := fresh "b" in let HI' := fresh "HI" in
        apply (rel_bind_obj W _ _ _ _ _ (alloc_parent_rel W a b i _ _ P HI Hp)); clear HI; intros a' b' HI'; cbn beta
    | HI : kinv _ _ ?W ?a ?b |- rel_res _ _ _ (bind (gset_via (GStruct ?a) (?p :: ?r) ?n ?v) _) (bind (gset_via (GStruct ?b) _ _ _) _) =>
        let a' := fresh "a" in let b' := fresh "b" in let HI' := fresh "HI" in
        apply (rel_bind_obj W _ _ _ _ _ (gset_via_rel W a b p r n v HI Hp)); clear HI; intros a' b' HI'; cbn beta
    | HI : kinv _ _ ?W ?a ?b |- rel_res _ _ _ (bind (gget_via (GStruct ?a) (?p :: ?r) ?n) _) (bind (gget_via (GStruct ?b) _ _) _) =>
        rewrite (gget_via_rel W a b p r n HI Hp); destruct (gget_via (GStruct a) (p :: r) n); cbn [bind]
    | |- rel_res _ _ _ (bind ?x _) _ => inner x; cbn [bind]
    | |- rel_res _ _ _ (match ?x with _ => _ end) _ => inner x; cbn [bind]
    end.

  (* one promoted field: nothing is asked of its attribute, of its kind (a custom type included), of
     the oneof it may be a branch of; the targets agree under the outermost embedded pointer *)
  Lemma from_field_promoted_rel hook i om l W a b ds p z r :
    fi_parent i = Some (p, z) -> fi_via i = p :: r -> In p W ->
    kinv' W a b ->
    rel_res' W (from_field hook (Field i om) (Some l) (GStruct a, ds))
               (from_field hook (Field i om) (Some l) (GStruct b, ds)).
  Proof.
    intros P V Hp HI. cbn [from_field f_info]. fold (from_fields hook).
    rewrite V, P. cbn [bind].
    destruct (lookup (fi_snake i) l) as [x|] eqn:EL.
    2:{ destruct (fi_kind i); repeat prel_step P Hp. }
    unfold as_prim.
    destruct (fi_kind i) eqn:EK; try destruct (fi_oneof i) as [h|]; repeat prel_step P Hp.
  Qed.

  (* ----------------------------------------------------------------------------------- *)
  (* the fields, the resets, the message *)

  (* the restriction on one field: an ordinary field is reached directly and is no custom type (as in
     pi_field_ok); a field promoted from a nullable embedded message is reached through it: the path
     starts with the pointer which the head of CopyFrom resets.  Nothing else is asked of a promoted
     field: any kind (custom types included), any chain, oneof branch or not *)
  Definition pe_field_ok (f : field) : bool :=
    fi_placeholder (f_info f)
    || match fi_parent (f_info f) with
       | None => match fi_via (f_info f) with [] => true | _ => false end
                 && negb (kind_eqb (fi_kind (f_info f)) CustomKind)
       | Some (p, _) => match fi_via (f_info f) with q :: _ => String.eqb q p | [] => false end
       end.

  Lemma pe_field_ok_inv f :
    pe_field_ok f = true -> fi_placeholder (f_info f) = false ->
    (fi_parent (f_info f) = None /\ fi_via (f_info f) = [] /\ fi_kind (f_info f) <> CustomKind)
    \/ exists p z r, fi_parent (f_info f) = Some (p, z) /\ fi_via (f_info f) = p :: r.
  Proof.
    unfold pe_field_ok. intros H PH. rewrite PH in H. cbn [orb] in H.
    destruct (fi_parent (f_info f)) as [[p z]|].
    - right. destruct (fi_via (f_info f)) as [|q r]; [discriminate|]. apply String.eqb_eq in H. subst q. eauto.
    - left. apply andb_prop in H. destruct H as [H1 H2]. split; [reflexivity|].
      split; [destruct (fi_via (f_info f)); [reflexivity|discriminate]|].
      intros E. rewrite E in H2. discriminate.
  Qed.

  (* the key an ordinary field is certain to assign; a promoted field adds none: the embedded pointer
     it writes under is reset at the head *)
  Definition ecover (l : list (string * tfval)) (f : field) : list string :=
    match fi_parent (f_info f) with None => cover l f | Some _ => [] end.

  Lemma from_field_list_emb_rel hook l fs : forall W a b ds,
    forallb pe_field_ok fs = true ->
    (forall f, In f fs -> incl (parent_keys (f_info f)) W) ->
    kinv' W a b ->
    rel_res' (flat_map (ecover l) fs ++ W)
             (from_field_list hook fs (Some l) (GStruct a, ds))
             (from_field_list hook fs (Some l) (GStruct b, ds)).
  Proof.
    induction fs as [|f r IH]; intros W a b ds HF HP HI; cbn [from_field_list flat_map app].
    - split; [reflexivity|exact HI].
    - cbn [forallb] in HF. apply andb_prop in HF. destruct HF as [Hf Hr].
      assert (HPr : forall g, In g r -> incl (parent_keys (f_info g)) W) by (intros g Hg; apply HP; now right).
      destruct (fi_placeholder (f_info f)) eqn:PH.
      { assert (E0 : ecover l f = []).
        { unfold ecover, cover. rewrite PH. now destruct (fi_parent (f_info f)). }
        rewrite E0. cbn [app]. now apply IH. }
      assert (STEP : rel_res' (ecover l f ++ W) (from_field hook f (Some l) (GStruct a, ds))
                              (from_field hook f (Some l) (GStruct b, ds))).
      { unfold ecover. destruct (pe_field_ok_inv f Hf PH) as [(P & V & NC)|(p & z & r0 & P & V)]; rewrite P.
        - unfold cover. rewrite PH. destruct f as [i om]. cbn [f_info] in *. now apply from_field_rel.
        - destruct f as [i om]. cbn [f_info app] in *.
          apply (from_field_promoted_rel hook i om l W a b ds p z r0 P V); [|exact HI].
          apply (HP (Field i om) (or_introl eq_refl)). unfold parent_keys. cbn [f_info]. rewrite P. now left. }
      destruct (from_field hook f (Some l) (GStruct a, ds)) as [[[| | | | |a'|] d1]|],
               (from_field hook f (Some l) (GStruct b, ds)) as [[[| | | | |b'|] d2]|];
        cbn [rel_res] in STEP; try contradiction; cbn [bind]; [|exact I].
      destruct STEP as [<- H1].
      apply (rel_res_mono K1 K2 (flat_map (ecover l) r ++ (ecover l f ++ W))).
      + intros k Hk. rewrite !in_app_iff in *. tauto.
      + apply IH; [exact Hr| |exact H1]. intros g Hg k Hk. apply in_or_app. right. now apply (HPr g Hg).
  Qed.

  (* the keys a run of CopyFrom is certain to assign: the ordinary fields whose attribute has the
     right constructor, the embedded pointers, the oneof holders *)
  Definition ewritten (m : message) (l : list (string * tfval)) : list string :=
    flat_map (ecover l) (m_fields m)
    ++ flat_map (fun f => parent_keys (f_info f)) (m_fields m)
    ++ flat_map (fun f => promoted_keys (f_info f)) (m_fields m)
    ++ m_oneofs m.

  Lemma from_fields_emb_rel hook m l a b ds :
    forallb pe_field_ok (m_fields m) = true ->
    keys a = K1 -> keys b = K2 ->
    rel_res' (ewritten m l) (from_fields hook m (Some l) (GStruct a, ds)) (from_fields hook m (Some l) (GStruct b, ds)).
  Proof.
    destruct m as [n fs os inj e z]. cbn [m_fields]. intros HF Ha Hb. rewrite !from_fields_unfold. cbn [fst snd].
    assert (HI : kinv' [] a b) by (split; [exact Ha|split; [exact Hb|intros k []]]).
    pose proof (fold_res_rel K1 K2 reset_oneof (fun h => [h]) (reset_oneof_rel K1 K2 HK) os [] a b HI) as H1.
    destruct (fold_res reset_oneof os (GStruct a)) as [[| | | | |a1|]|],
             (fold_res reset_oneof os (GStruct b)) as [[| | | | |b1|]|];
      cbn [rel_obj] in H1; try contradiction; cbn [bind]; [|exact I].
    pose proof (fold_res_rel K1 K2 reset_promoted (fun f => promoted_keys (f_info f)) (reset_promoted_rel K1 K2 HK) fs _ a1 b1 H1) as H2.
    destruct (fold_res reset_promoted fs (GStruct a1)) as [[| | | | |a2|]|],
             (fold_res reset_promoted fs (GStruct b1)) as [[| | | | |b2|]|];
      cbn [rel_obj] in H2; try contradiction; cbn [bind]; [|exact I].
    pose proof (fold_res_rel K1 K2 reset_parent (fun f => parent_keys (f_info f)) (reset_parent_rel K1 K2 HK) fs _ a2 b2 H2) as H3.
    destruct (fold_res reset_parent fs (GStruct a2)) as [[| | | | |a3|]|],
             (fold_res reset_parent fs (GStruct b2)) as [[| | | | |b3|]|];
      cbn [rel_obj] in H3; try contradiction; cbn [bind]; [|exact I].
    match type of H3 with kinv _ _ ?W3 _ _ =>
      pose proof (fun HP => from_field_list_emb_rel hook l fs W3 a3 b3 ds HF HP H3) as H4 end.
    eapply rel_res_mono; [|apply H4].
    - unfold ewritten. cbn [m_fields m_oneofs]. intros k Hk. rewrite !in_app_iff in *.
      assert (E : In k (flat_map (fun h : string => [h]) os) <-> In k os).
      { clear. induction os as [|h r IH]; cbn; tauto. }
      rewrite E. tauto.
    - intros f Hf k Hk. apply in_or_app. left. apply in_flat_map. exists f. split; [exact Hf|exact Hk].
  Qed.
End EmbLockStep.

(* ------------------------------------------------------------------------------------- *)
(* 2. independence of the prior content, general forms (no hypothesis on the object) *)

(* two priors with the same keys (in any order, with any other keys next to those of the message):
   the runs panic together, or return the same diagnostics and structs which agree under every key
   the run is certain to assign; the embedded pointers are among them whatever the object holds *)
Theorem from_fields_prior_agree_written hook m attrs fs1 fs2 ds :
  forallb pe_field_ok (m_fields m) = true ->
  (forall k, In k (keys fs1) <-> In k (keys fs2)) ->
  match from_fields hook m attrs (GStruct fs1, ds), from_fields hook m attrs (GStruct fs2, ds) with
  | Panic, Panic => True
  | Ok (g1, d1), Ok (g2, d2) =>
      d1 = d2 /\ exists a b, g1 = GStruct a /\ g2 = GStruct b /\ keys a = keys fs1 /\ keys b = keys fs2
                             /\ forall k, In k (ewritten m (attrs_list attrs)) -> gfield g1 k = gfield g2 k
  | _, _ => False
  end.
Proof.
  intros HF HK. rewrite !(from_fields_attrs_list hook m attrs).
  pose proof (from_fields_emb_rel (keys fs1) (keys fs2) HK hook m (attrs_list attrs) fs1 fs2 ds HF eq_refl eq_refl) as H.
  destruct (from_fields hook m (Some (attrs_list attrs)) (GStruct fs1, ds)) as [[[| | | | |a|] d1]|],
           (from_fields hook m (Some (attrs_list attrs)) (GStruct fs2, ds)) as [[[| | | | |b|] d2]|];
    cbn [rel_res] in H; try contradiction; [|exact I].
  destruct H as (Hd & Ha & Hb & HL). split; [exact Hd|]. exists a, b. repeat (split; [reflexivity || assumption|]).
  intros k Hk. cbn [gfield]. now rewrite (HL k Hk).
Qed.

(* every key of the priors is assigned: the results agree under every key *)
Theorem from_fields_prior_independent_emb_lookup hook m attrs fs1 fs2 ds :
  forallb pe_field_ok (m_fields m) = true ->
  (forall k, In k (keys fs1) <-> In k (keys fs2)) ->
  (forall k, In k (keys fs1) -> In k (ewritten m (attrs_list attrs))) ->
  same_fields (keys fs1) (keys fs2)
              (from_fields hook m attrs (GStruct fs1, ds)) (from_fields hook m attrs (GStruct fs2, ds)).
Proof.
  intros HF HK HC. pose proof (from_fields_prior_agree_written hook m attrs fs1 fs2 ds HF HK) as H.
  unfold same_fields.
  destruct (from_fields hook m attrs (GStruct fs1, ds)) as [[g1 d1]|], (from_fields hook m attrs (GStruct fs2, ds)) as [[g2 d2]|];
    try exact H.
  destruct H as (Hd & a & b & -> & -> & Ha & Hb & HL). split; [exact Hd|]. exists a, b.
  repeat (split; [reflexivity || assumption|]).
  intros k. destruct (in_dec string_dec k (keys fs1)) as [Hin|Hout]; [apply HL, HC, Hin|].
  cbn [gfield].
  assert (E1 : lookup k a = None) by (apply lookup_None_keys; rewrite Ha; exact Hout).
  assert (E2 : lookup k b = None) by (apply lookup_None_keys; rewrite Hb; intros X; apply Hout, HK, X).
  now rewrite E1, E2.
Qed.

(* the same key list, without repetition: the results are equal *)
Theorem from_fields_prior_independent_emb hook m attrs fs1 fs2 ds :
  forallb pe_field_ok (m_fields m) = true ->
  keys fs1 = keys fs2 -> NoDup (keys fs1) ->
  (forall k, In k (keys fs1) -> In k (ewritten m (attrs_list attrs))) ->
  from_fields hook m attrs (GStruct fs1, ds) = from_fields hook m attrs (GStruct fs2, ds).
Proof.
  intros HF HK HN HC. rewrite !(from_fields_attrs_list hook m attrs).
  assert (HK' : forall k, In k (keys fs1) <-> In k (keys fs2)) by (intros k; now rewrite HK).
  pose proof (from_fields_emb_rel (keys fs1) (keys fs2) HK' hook m (attrs_list attrs) fs1 fs2 ds HF eq_refl eq_refl) as H.
  destruct (from_fields hook m (Some (attrs_list attrs)) (GStruct fs1, ds)) as [[[| | | | |a|] d1]|],
           (from_fields hook m (Some (attrs_list attrs)) (GStruct fs2, ds)) as [[[| | | | |b|] d2]|];
    cbn [rel_res] in H; try contradiction; [|reflexivity].
  destruct H as (Hd & Ha & Hb & HL). subst d2. do 3 f_equal.
  apply alist_ext; [congruence|now rewrite Ha|]. rewrite Ha. intros k Hk. apply HL, HC, Hk.
Qed.

(* ------------------------------------------------------------------------------------- *)
(* 3. the statements on the class *)

(* the class: pe_field_ok for every top-level field.  The messages nested below, the zero structs
   recorded for the embedded messages, the number of embedded pointers on the way to a promoted
   field are arbitrary *)
Definition pe_ok (m : message) : bool := forallb pe_field_ok (m_fields m).

(* the Go fields of the struct of a message with embedded pointers: the ordinary fields which are not
   oneof branches, the outermost embedded pointers, the oneof holders (a key may be listed twice) *)
Definition ordinary_name (f : field) : list string :=
  if fi_placeholder (f_info f) then []
  else match fi_parent (f_info f), fi_oneof (f_info f) with
       | None, None => [fi_name (f_info f)]
       | _, _ => []
       end.

Definition emb_go_keys (m : message) : list string :=
  flat_map ordinary_name (m_fields m)
  ++ flat_map (fun f => parent_keys (f_info f)) (m_fields m)
  ++ flat_map (fun f => promoted_keys (f_info f)) (m_fields m)
  ++ m_oneofs m.

(* the prior: a struct with exactly these keys, in any order; ARBITRARY values under them: an
   embedded pointer may be nil, point to a struct full of content (with its own inner pointers set),
   or hold an ill-typed value *)
Definition prior_emb_keys (m : message) (p : goval) : Prop :=
  exists fs, p = GStruct fs /\ forall k, In k (keys fs) <-> In k (emb_go_keys m).

(* ... each key once (for the syntactic equality) *)
Definition prior_emb_ok (m : message) (p : goval) : Prop :=
  exists fs, p = GStruct fs /\ NoDup (keys fs) /\ forall k, In k (keys fs) <-> In k (emb_go_keys m).

Lemma prior_emb_ok_keys m p : prior_emb_ok m p -> prior_emb_keys m p.
Proof. intros (fs & E & _ & H). exists fs. tauto. Qed.

(* the hypothesis on the object, the weakest one: tf_shaped for the ORDINARY fields only.  Nothing is
   asked of the attribute of a promoted field: missing, of another constructor, null, unknown or
   known, it cannot make the field keep prior content, the embedded pointer being reset first *)
Definition attr_eshaped (l : list (string * tfval)) (f : field) : bool :=
  match fi_parent (f_info f) with Some _ => true | None => attr_shaped l f end.

Definition attrs_eshaped (m : message) (attrs : option (list (string * tfval))) : bool :=
  forallb (attr_eshaped (attrs_list attrs)) (m_fields m).

Definition tf_eshaped (m : message) (t : tfval) : bool :=
  match t with VObj _ _ _ at0 => attrs_eshaped m at0 | _ => false end.

Lemma tf_shaped_eshaped m t : tf_shaped m t = true -> tf_eshaped m t = true.
Proof.
  destruct t; try discriminate. cbn [tf_shaped tf_eshaped]. unfold attrs_shaped, attrs_eshaped.
  rewrite !forallb_forall. intros H f Hf. unfold attr_eshaped. destruct (fi_parent (f_info f)); [reflexivity|now apply H].
Qed.

Lemma eshaped_written m attrs k :
  attrs_eshaped m attrs = true -> In k (emb_go_keys m) -> In k (ewritten m (attrs_list attrs)).
Proof.
  unfold attrs_eshaped, emb_go_keys, ewritten. intros HS Hk. rewrite forallb_forall in HS.
  rewrite !in_app_iff in *. destruct Hk as [Hk|Hk]; [left|tauto].
  apply in_flat_map in Hk. destruct Hk as (f & Hf & Hk). apply in_flat_map. exists f. split; [exact Hf|].
  specialize (HS f Hf). unfold attr_eshaped, attr_shaped in HS. unfold ordinary_name in Hk. unfold ecover, cover, fcover.
  destruct (fi_placeholder (f_info f)); [destruct Hk|]. cbn [orb] in HS.
  destruct (fi_parent (f_info f)); [destruct Hk|].
  destruct (fi_oneof (f_info f)); [destruct Hk|].
  destruct (lookup (fi_snake (f_info f)) (attrs_list attrs)); [|discriminate]. rewrite HS. exact Hk.
Qed.

(* C05 with embedded pointers, up to the order of the keys: the two runs panic together, or return
   the same diagnostics and structs which hold the same value under every key *)
Theorem copy_from_prior_independent_embedded_lookup_partial hook m t p1 p2 :
  pe_ok m = true -> tf_eshaped m t = true -> prior_emb_keys m p1 -> prior_emb_keys m p2 ->
  match copy_from hook m t p1, copy_from hook m t p2 with
  | Panic, Panic => True
  | Ok (g1, d1), Ok (g2, d2) => d1 = d2 /\ forall k, gfield g1 k = gfield g2 k
  | _, _ => False
  end.
Proof.
  intros HF HS (fs1 & -> & H1) (fs2 & -> & H2). destruct t; try discriminate HS. cbn [copy_from tf_eshaped] in *.
  assert (HK : forall k, In k (keys fs1) <-> In k (keys fs2)) by (intros k; now rewrite H1, H2).
  assert (HC : forall k, In k (keys fs1) -> In k (ewritten m (attrs_list attrs))).
  { intros k Hk. apply eshaped_written; [exact HS|]. now apply H1. }
  pose proof (from_fields_prior_independent_emb_lookup hook m attrs fs1 fs2 [] HF HK HC) as H.
  unfold same_fields in H.
  destruct (from_fields hook m attrs (GStruct fs1, [])) as [[g1 d1]|], (from_fields hook m attrs (GStruct fs2, [])) as [[g2 d2]|];
    try exact H.
  destruct H as (Hd & a & b & _ & _ & _ & _ & HL). split; [exact Hd|exact HL].
Qed.

(* the form with the two results given *)
Theorem copy_from_prior_independent_embedded_partial hook m t p1 p2 :
  pe_ok m = true -> tf_eshaped m t = true -> prior_emb_keys m p1 -> prior_emb_keys m p2 ->
  forall g1 d1 g2 d2, copy_from hook m t p1 = Ok (g1, d1) -> copy_from hook m t p2 = Ok (g2, d2) ->
    d1 = d2 /\ forall k, gfield g1 k = gfield g2 k.
Proof.
  intros HF HS H1 H2 g1 d1 g2 d2 E1 E2.
  pose proof (copy_from_prior_independent_embedded_lookup_partial hook m t p1 p2 HF HS H1 H2) as H.
  now rewrite E1, E2 in H.
Qed.

(* ... and one run returns exactly when the other does *)
Corollary copy_from_prior_panics_together_embedded_partial hook m t p1 p2 :
  pe_ok m = true -> tf_eshaped m t = true -> prior_emb_keys m p1 -> prior_emb_keys m p2 ->
  copy_from hook m t p1 = Panic <-> copy_from hook m t p2 = Panic.
Proof.
  intros HF HS H1 H2.
  pose proof (copy_from_prior_independent_embedded_lookup_partial hook m t p1 p2 HF HS H1 H2) as H.
  destruct (copy_from hook m t p1) as [[g1 d1]|], (copy_from hook m t p2) as [[g2 d2]|]; try contradiction;
    split; intros X; try discriminate X; reflexivity.
Qed.

(* the two priors are values of the same struct type (same_layout): the results are equal *)
Theorem copy_from_prior_independent_embedded_eq_partial hook m t p1 p2 :
  pe_ok m = true -> tf_eshaped m t = true -> prior_emb_ok m p1 -> prior_emb_ok m p2 -> same_layout p1 p2 ->
  copy_from hook m t p1 = copy_from hook m t p2.
Proof.
  intros HF HS (fs1 & -> & N1 & H1) (fs2 & -> & N2 & H2) HL. cbn [same_layout] in HL.
  destruct t; try discriminate HS. cbn [copy_from tf_eshaped] in *.
  apply from_fields_prior_independent_emb; [exact HF|exact HL|exact N1|].
  intros k Hk. apply eshaped_written; [exact HS|]. now apply H1.
Qed.

(* without any hypothesis on the object and with any other keys in the priors: agreement under the
   embedded pointers and the oneof holders (and under the ordinary fields whose attribute is shaped) *)
Theorem copy_from_prior_agree_embedded_partial hook m a n u at0 fs1 fs2 :
  pe_ok m = true -> (forall k, In k (keys fs1) <-> In k (keys fs2)) ->
  match copy_from hook m (VObj a n u at0) (GStruct fs1), copy_from hook m (VObj a n u at0) (GStruct fs2) with
  | Panic, Panic => True
  | Ok (g1, d1), Ok (g2, d2) =>
      d1 = d2 /\ forall k, In k (ewritten m (attrs_list at0)) -> gfield g1 k = gfield g2 k
  | _, _ => False
  end.
Proof.
  intros HF HK. cbn [copy_from].
  pose proof (from_fields_prior_agree_written hook m at0 fs1 fs2 [] HF HK) as H.
  destruct (from_fields hook m at0 (GStruct fs1, [])) as [[g1 d1]|], (from_fields hook m at0 (GStruct fs2, [])) as [[g2 d2]|];
    try exact H.
  destruct H as (Hd & a' & b' & _ & _ & _ & _ & HL). split; [exact Hd|exact HL].
Qed.

Corollary copy_from_prior_agree_parent_partial hook m a n u at0 fs1 fs2 i om p z :
  pe_ok m = true -> (forall k, In k (keys fs1) <-> In k (keys fs2)) ->
  In (Field i om) (m_fields m) -> fi_parent i = Some (p, z) ->
  forall g1 d1 g2 d2, copy_from hook m (VObj a n u at0) (GStruct fs1) = Ok (g1, d1) ->
                      copy_from hook m (VObj a n u at0) (GStruct fs2) = Ok (g2, d2) ->
    d1 = d2 /\ gfield g1 p = gfield g2 p.
Proof.
  intros HF HK Hf P g1 d1 g2 d2 E1 E2.
  pose proof (copy_from_prior_agree_embedded_partial hook m a n u at0 fs1 fs2 HF HK) as H. rewrite E1, E2 in H.
  destruct H as [Hd HL]. split; [exact Hd|]. apply HL. unfold ewritten. rewrite !in_app_iff. right. left.
  apply in_flat_map. exists (Field i om). split; [exact Hf|]. unfold parent_keys. cbn [f_info]. rewrite P. now left.
Qed.

(* the classes of EmbeddedProofs.v and ChainProofs.v are in the class, when no ordinary field is a
   custom type *)
Lemma emb_from_ok_pe_ok m : emb_from_ok m = true -> no_custom_top m = true -> pe_ok m = true.
Proof.
  unfold emb_from_ok, no_custom_top, pe_ok. rewrite !forallb_forall. intros HF HC f Hf.
  specialize (HF f Hf). specialize (HC f Hf). unfold efield_from_ok in HF. apply orb_prop in HF.
  unfold pe_field_ok. destruct HF as [HF|HF].
  - apply andb_prop in HF. destruct HF as [HF _]. destruct f as [i om]. cbn [fflat_ok f_info] in *.
    apply andb_prop in HF. destruct HF as [HF _]. destruct (info_ok_inv _ _ HF) as (V & P & _).
    rewrite V, P, HC. apply orb_true_r.
  - destruct (pinfo_from_ok_inv _ _ HF) as (p & z & V & P & _). rewrite V, P, String.eqb_refl. apply orb_true_r.
Qed.

Lemma embc_from_ok_pe_ok m : embc_from_ok m = true -> no_custom_top m = true -> pe_ok m = true.
Proof.
  unfold embc_from_ok, no_custom_top, pe_ok. rewrite !forallb_forall. intros HF HC f Hf.
  specialize (HF f Hf). specialize (HC f Hf). unfold cefield_from_ok in HF. apply orb_prop in HF.
  unfold pe_field_ok. destruct HF as [HF|HF].
  - apply andb_prop in HF. destruct HF as [HF _]. destruct f as [i om]. cbn [fflat_ok f_info] in *.
    apply andb_prop in HF. destruct HF as [HF _]. destruct (info_ok_inv _ _ HF) as (V & P & _).
    rewrite V, P, HC. apply orb_true_r.
  - apply andb_prop in HF. destruct HF as [HF _].
    destruct (cinfo_from_ok_inv _ _ HF) as (p & z & P & V & _). rewrite V, P, String.eqb_refl. apply orb_true_r.
Qed.

Corollary copy_from_prior_independent_emb_ok_partial hook m t p1 p2 :
  emb_ok m = true -> no_custom_top m = true -> tf_eshaped m t = true -> prior_emb_keys m p1 -> prior_emb_keys m p2 ->
  forall g1 d1 g2 d2, copy_from hook m t p1 = Ok (g1, d1) -> copy_from hook m t p2 = Ok (g2, d2) ->
    d1 = d2 /\ forall k, gfield g1 k = gfield g2 k.
Proof. intros HM HC. apply copy_from_prior_independent_embedded_partial. apply emb_from_ok_pe_ok; [now apply emb_ok_from|exact HC]. Qed.

Corollary copy_from_prior_independent_embc_ok_partial hook m t p1 p2 :
  embc_ok m = true -> no_custom_top m = true -> tf_eshaped m t = true -> prior_emb_keys m p1 -> prior_emb_keys m p2 ->
  forall g1 d1 g2 d2, copy_from hook m t p1 = Ok (g1, d1) -> copy_from hook m t p2 = Ok (g2, d2) ->
    d1 = d2 /\ forall k, gfield g1 k = gfield g2 k.
Proof. intros HM HC. apply copy_from_prior_independent_embedded_partial. apply embc_from_ok_pe_ok; [now apply embc_ok_from|exact HC]. Qed.

(* ------------------------------------------------------------------------------------- *)
(* 4. the message-level reset with embedded pointers *)

(* the class of the reset corollary: an ordinary field as in reset_field_ok; a promoted field is no
   custom type (a custom type makes CopyFrom allocate the embedded pointer whatever the attribute
   holds) and a message field carries its message; the ordinary names and the holders are distinct,
   and no embedded pointer is one of them *)
Definition reset_efield_ok (os : list string) (f : field) : bool :=
  match fi_parent (f_info f) with
  | None => reset_field_ok os f
  | Some _ => negb (kind_eqb (fi_kind (f_info f)) CustomKind)
              && match fi_kind (f_info f), f_msg f with ObjectKind, None => false | _, _ => true end
  end.

Definition reset_emb_ok (m : message) : bool :=
  forallb (reset_efield_ok (m_oneofs m)) (m_fields m)
  && nodup_b (flat_map ordinary_name (m_fields m) ++ m_oneofs m)
  && forallb (fun p => negb (mem_str p (flat_map ordinary_name (m_fields m) ++ m_oneofs m))) (parents (m_fields m)).

(* the zero state: holders nil, embedded pointers nil, ordinary fields zero (is_zero_field of
   PriorProofs.v: slices and maps EMPTY) *)
Definition is_zero_emb (m : message) (g : goval) : Prop :=
  exists gs, g = GStruct gs /\
             (forall h, In h (m_oneofs m) -> lookup h gs = Some (GOneof None)) /\
             (forall p, In p (parents (m_fields m)) -> lookup p gs = Some (GPtr None)) /\
             Forall (fun f => fi_parent (f_info f) = None -> is_zero_field f gs) (m_fields m).

Definition ezeros_zero (m : message) : Prop :=
  forall i m', In (Field i (Some m')) (m_fields m) -> fi_parent i = None -> fi_placeholder i = false ->
               fi_oneof i = None -> fi_kind i = ObjectKind -> fi_nullable i = false -> is_zero_msg m' (m_zero m').

(* a promoted field whose attribute is null or unknown leaves the target as it is *)
Lemma from_field_promoted_null hook i om l obj ds x pz :
  fi_parent i = Some pz -> fi_kind i <> CustomKind ->
  (fi_kind i = ObjectKind -> exists m', om = Some m') ->
  lookup (fi_snake i) l = Some x -> shaped i x = true -> is_nullish x = true ->
  from_field hook (Field i om) (Some l) (obj, ds) = Ok (obj, ds).
Proof.
  intros P NC HM EL HS HN. unfold shaped in HS. cbn [from_field]. fold (from_fields hook).
  rewrite P, EL. unfold as_prim, from_prim_value.
  assert (KN : forall n u, n || u = true -> known n u = false) by (intros [|] [|]; cbn; congruence).
  destruct (fi_kind i) eqn:EK; try congruence; destruct x; try discriminate HS; cbn [is_nullish] in HN;
    rewrite ?HS, ?(KN _ _ HN); cbn [bind].
  - destruct (fi_oneof i); reflexivity.
  - reflexivity.
  - destruct (HM eq_refl) as [m' ->]. destruct (fi_oneof i); reflexivity.
  - destruct om; reflexivity.
  - reflexivity.
  - destruct om; reflexivity.
Qed.

Lemma ordinary_name_cons f r :
  flat_map ordinary_name (f :: r) =
  (if fi_placeholder (f_info f) then []
   else match fi_parent (f_info f), fi_oneof (f_info f) with
        | None, None => [fi_name (f_info f)]
        | _, _ => []
        end) ++ flat_map ordinary_name r.
Proof. reflexivity. Qed.

Lemma from_field_list_null_emb hook l os fs : forall a ds,
  forallb (reset_efield_ok os) fs = true -> forallb (attr_null l) fs = true ->
  (forall k, In k (flat_map ordinary_name fs) -> In k (keys a)) -> NoDup (flat_map ordinary_name fs) ->
  exists a', from_field_list hook fs (Some l) (GStruct a, ds) = Ok (GStruct a', ds) /\ keys a' = keys a /\
             (forall k, ~ In k (flat_map ordinary_name fs) -> lookup k a' = lookup k a) /\
             (forall f, In f fs -> fi_placeholder (f_info f) = false -> fi_parent (f_info f) = None ->
                        fi_oneof (f_info f) = None ->
                        lookup (fi_name (f_info f)) a' = Some (reset_val (f_info f) (f_msg f))).
Proof.
  induction fs as [|f r IH]; intros a ds HF HA HK HN; cbn [from_field_list].
  - exists a. split; [reflexivity|]. split; [reflexivity|]. split; [reflexivity|]. intros f [].
  - cbn [forallb] in HF, HA. apply andb_prop in HF. destruct HF as [Hf HF]. apply andb_prop in HA. destruct HA as [Ha HA].
    rewrite ordinary_name_cons in HK, HN |- *.
    destruct (fi_placeholder (f_info f)) eqn:PH.
    { cbn [app] in *. destruct (IH a ds HF HA HK HN) as (a' & E & K & U & Z). exists a'.
      split; [exact E|]. split; [exact K|]. split; [exact U|].
      intros g [<-|Hg] PHg Pg Og; [congruence|now apply Z]. }
    unfold attr_null in Ha. rewrite PH in Ha. cbn [orb] in Ha.
    destruct (lookup (fi_snake (f_info f)) l) as [x|] eqn:EL; [|discriminate]. apply andb_prop in Ha. destruct Ha as [HS HX].
    unfold reset_efield_ok in Hf.
    destruct (fi_parent (f_info f)) as [pz|] eqn:P.
    { (* promoted: the target is left as it is *)
      apply andb_prop in Hf. destruct Hf as [NC HM]. destruct f as [i om]. cbn [f_info f_msg] in *.
      rewrite (from_field_promoted_null hook i om l (GStruct a) ds x pz P); auto.
      - cbn [app bind] in *. destruct (IH a ds HF HA HK HN) as (a' & E & K & U & Z). exists a'.
        split; [exact E|]. split; [exact K|]. split; [exact U|].
        intros g [<-|Hg] PHg Pg Og; [cbn [f_info] in Pg; congruence|now apply Z].
      - intros E. rewrite E in NC. discriminate.
      - intros E. rewrite E in HM. destruct om; [eauto|discriminate]. }
    destruct (reset_field_ok_inv _ _ Hf) as (V & _ & NC & HO & HM).
    destruct f as [i om]. cbn [f_info f_msg] in *.
    rewrite (from_field_null hook i om l (GStruct a) ds x V P NC (fun h E => proj2 (HO h E)) HM EL HS HX).
    destruct (fi_oneof i) as [h|] eqn:EO.
    { cbn [app bind] in *. destruct (IH a ds HF HA HK HN) as (a' & E & K & U & Z). exists a'.
      split; [exact E|]. split; [exact K|]. split; [exact U|].
      intros g [<-|Hg] PHg Pg Og; [cbn [f_info] in Og; congruence|now apply Z]. }
    cbn [app] in HK, HN |- *. inversion HN as [|x0 l0 Hnot Hnd]; subst.
    rewrite gset_in by (apply HK; now left). cbn [bind].
    assert (KU : keys (update (fi_name i) (reset_val i om) a) = keys a) by (apply keys_update_same, HK; now left).
    destruct (IH (update (fi_name i) (reset_val i om) a) ds HF HA) as (a' & E & K & U & Z); [|exact Hnd|].
    { intros k Hk. rewrite KU. apply HK. now right. }
    exists a'. split; [exact E|]. split; [congruence|]. split.
    + intros k Hk. rewrite U by (intros X; apply Hk; now right).
      apply lookup_update_neq. intros ->. apply Hk. now left.
    + intros g [<-|Hg] PHg Pg Og; [|now apply Z]. cbn [f_info f_msg]. rewrite (U _ Hnot). apply lookup_update_eq.
Qed.

Lemma reset_promoted_keeps_nil h fs : forall o o',
  fold_res reset_promoted fs o = Ok o' -> gfield o h = Ok (GOneof None) -> gfield o' h = Ok (GOneof None).
Proof.
  induction fs as [|f r IH]; intros o o' H G; cbn [fold_res] in H; [now inversion H; subst|].
  destruct (reset_promoted o f) as [o1|] eqn:E; cbn [bind] in H; [|discriminate].
  apply (IH _ _ H). unfold reset_promoted in E.
  destruct (fi_oneof (f_info f)) as [h0|]; [|now inversion E; subst].
  destruct (fi_parent (f_info f)); [now inversion E; subst|].
  destruct (string_dec h h0) as [->|N]; [eapply gset_same; eauto|].
  now rewrite (gset_other _ _ _ _ _ E N).
Qed.

Lemma reset_parents_other n fs o o' :
  fold_res reset_parent fs o = Ok o' -> ~ In n (parents fs) -> gfield o' n = gfield o n.
Proof.
  intros H N. apply (fold_res_other reset_parent parent_of n) with (l := fs); [|exact H|exact N].
  intros o0 f o1 E N0. unfold reset_parent in E. unfold parent_of in N0.
  destruct (fi_parent (f_info f)) as [[pn pz]|]; [|now inversion E; subst].
  eapply gset_other; eauto. intros ->. apply N0. now left.
Qed.

Lemma in_parents_keys p fs : In p (parents fs) <-> In p (flat_map (fun f => parent_keys (f_info f)) fs).
Proof. reflexivity. Qed.

(* the struct CopyFrom returns for an object whose attributes are all null or unknown *)
Lemma from_fields_all_null_emb hook m l fs ds :
  reset_emb_ok m = true -> forallb (attr_null l) (m_fields m) = true ->
  (forall k, In k (keys fs) <-> In k (emb_go_keys m)) ->
  exists gs, from_fields hook m (Some l) (GStruct fs, ds) = Ok (GStruct gs, ds) /\
             keys gs = keys fs /\
             (forall h, In h (m_oneofs m) -> lookup h gs = Some (GOneof None)) /\
             (forall p, In p (parents (m_fields m)) -> lookup p gs = Some (GPtr None)) /\
             (forall f, In f (m_fields m) -> fi_placeholder (f_info f) = false -> fi_parent (f_info f) = None ->
                        match fi_oneof (f_info f) with
                        | Some h => lookup h gs = Some (GOneof None)
                        | None => lookup (fi_name (f_info f)) gs = Some (reset_val (f_info f) (f_msg f))
                        end).
Proof.
  destruct m as [n l0 os inj e z]. unfold reset_emb_ok, emb_go_keys. cbn [m_fields m_oneofs]. intros HM HA HK.
  apply andb_prop in HM. destruct HM as [HM HD]. apply andb_prop in HM. destruct HM as [HF HN].
  apply nodup_b_NoDup in HN. destruct (NoDup_app_inv _ _ HN) as [HN1 HN2].
  rewrite forallb_forall in HD.
  assert (HD' : forall p, In p (parents l0) -> ~ In p (flat_map ordinary_name l0) /\ ~ In p os).
  { intros p Hp. specialize (HD p Hp). apply negb_true_iff in HD.
    split; intros X; assert (Y : mem_str p (flat_map ordinary_name l0 ++ os) = true)
      by (apply mem_str_In, in_or_app; tauto); congruence. }
  assert (HF' := HF). rewrite forallb_forall in HF'.
  rewrite from_fields_unfold. cbn [fst snd].
  destruct (fold_res_keys reset_oneof os (keys fs)) with (fs := fs) as [gs1 [E1 KK1]]; [|reflexivity|].
  { intros h Hh fs0 E0. unfold reset_oneof. apply put_total_K; auto. apply HK. rewrite !in_app_iff. tauto. }
  rewrite E1. cbn [bind].
  destruct (fold_res_keys reset_promoted l0 (keys fs)) with (fs := gs1) as [gs2 [E2 KK2]]; [|exact KK1|].
  { intros f Hf fs0 E0. unfold reset_promoted.
    destruct (fi_oneof (f_info f)) as [h|] eqn:O; [|eauto]. destruct (fi_parent (f_info f)) eqn:P; [eauto|].
    apply put_total_K; auto. apply HK. rewrite !in_app_iff. right. right. left.
    apply in_flat_map. exists f. split; [exact Hf|]. unfold promoted_keys. rewrite O, P. now left. }
  rewrite E2. cbn [bind].
  destruct (fold_res_keys reset_parent l0 (keys fs)) with (fs := gs2) as [gs3 [E3 KK3]]; [|exact KK2|].
  { intros f Hf fs0 E0. unfold reset_parent. destruct (fi_parent (f_info f)) as [[pn pz]|] eqn:P; [|eauto].
    apply put_total_K; auto. apply HK. rewrite !in_app_iff. right. left.
    apply in_flat_map. exists f. split; [exact Hf|]. unfold parent_keys. rewrite P. now left. }
  rewrite E3. cbn [bind].
  assert (P3 : forall p, In p (parents l0) -> lookup p gs3 = Some (GPtr None)).
  { intros p Ip. apply gfield_lookup. apply (reset_parents_nil p l0 _ _ E3). now left. }
  assert (H3 : forall h, In h os -> lookup h gs3 = Some (GOneof None)).
  { intros h Hh. apply gfield_lookup.
    rewrite (reset_parents_other h l0 _ _ E3) by (intros X; exact (proj2 (HD' h X) Hh)).
    apply (reset_promoted_keeps_nil h l0 _ _ E2). apply (reset_oneofs_nil h os _ _ E1). now left. }
  destruct (from_field_list_null_emb hook l os l0 gs3 ds HF HA) as (gs & E & K & U & Z); [|exact HN1|].
  { intros k Hk. rewrite KK3. apply HK. apply in_or_app. now left. }
  exists gs. split; [exact E|]. split; [congruence|].
  assert (HH : forall h, In h os -> lookup h gs = Some (GOneof None)).
  { intros h Hh. rewrite U; [now apply H3|]. intros X. exact (HN2 h X Hh). }
  split; [exact HH|]. split.
  - intros p Ip. rewrite U; [now apply P3|]. exact (proj1 (HD' p Ip)).
  - intros f Hf PH P. destruct (fi_oneof (f_info f)) as [h|] eqn:EO; [|now apply Z].
    apply HH. pose proof (HF' f Hf) as Rf. unfold reset_efield_ok in Rf. rewrite P in Rf.
    destruct (reset_field_ok_inv _ _ Rf) as (_ & _ & _ & HO & _). apply (HO h EO).
Qed.

(* C05 at the level of the message, with embedded pointers: an object whose attributes are all null or
   unknown resets the target: every embedded pointer nil, every holder nil, every ordinary field zero,
   whatever the target held before (content under the embedded pointers included), without diagnostics *)
Corollary copy_from_all_null_resets_embedded_partial hook m t p :
  reset_emb_ok m = true -> ezeros_zero m -> all_null m t = true -> prior_emb_keys m p ->
  exists g, copy_from hook m t p = Ok (g, []) /\ is_zero_emb m g.
Proof.
  intros HM HZ HA (fs & -> & HK). destruct t; try discriminate HA. cbn [copy_from all_null] in *.
  rewrite from_fields_attrs_list.
  destruct (from_fields_all_null_emb hook m (attrs_list attrs) fs [] HM HA HK) as (gs & E & _ & HH & HP & HV).
  exists (GStruct gs). split; [exact E|].
  exists gs. split; [reflexivity|]. split; [exact HH|]. split; [exact HP|].
  unfold reset_emb_ok in HM. apply andb_prop in HM. destruct HM as [HM _]. apply andb_prop in HM. destruct HM as [HF _].
  rewrite forallb_forall in HF.
  apply Forall_forall. intros [i om] Hf P. cbn [f_info] in P. cbn [is_zero_field].
  destruct (fi_placeholder i) eqn:PH; [exact I|].
  pose proof (HV _ Hf PH P) as Hv. cbn [f_info f_msg] in Hv.
  destruct (fi_oneof i) as [h|] eqn:EO; [exact Hv|].
  exists (reset_val i om). split; [exact Hv|].
  pose proof (HF _ Hf) as Rf. unfold reset_efield_ok in Rf. cbn [f_info] in Rf. rewrite P in Rf.
  destruct (reset_field_ok_inv _ _ Rf) as (_ & _ & NC & _ & HO). cbn [f_info f_msg] in NC, HO.
  unfold reset_val. destruct (fi_kind i) eqn:EK; try reflexivity; try congruence.
  destruct (HO eq_refl) as [m' ->]. destruct (fi_nullable i) eqn:EN; [reflexivity|].
  now apply (HZ i m' Hf P PH EO EK EN).
Qed.

(* ------------------------------------------------------------------------------------- *)
(* 5. the hypotheses are satisfiable, and what is needed *)

Module PriorEmbExample.
  Import EmbExample ChainExample.
  Local Open Scope string_scope.
  Local Open Scope Z_scope.

  (* EmbExample.m: X; *P embedded with S, L, N (nullable message), V (message by value), Mm, T.
     ChainExample.m3: Own; chain B -> C -> D of embedded pointers.  m_custom: a custom type under P;
     m_two: two pointers; m_one: a oneof inside the embedded message: all in the class *)
  Example class_ok :
    pe_ok m = true /\ pe_ok m3 = true /\ pe_ok m_custom = true /\ pe_ok m_two = true /\ pe_ok m_one = true
    /\ reset_emb_ok m = true /\ reset_emb_ok m3 = true /\ reset_emb_ok m_custom = false.
  Proof. repeat split; vm_compute; reflexivity. Qed.

  (* priors of m: the zero struct; P set with content; P set, other content, inner pointers set;
     ill-typed values *)
  Definition o_deep : goval :=
    GStruct [("X", GPrim (PInt 9));
             ("P", GPtr (Some (GStruct [("S", GPrim (PStr "old")); ("L", GSlice (Some [GPrim (PInt 1); GPrim (PInt 2)]));
                                        ("N", GPtr (Some (inn "oldn"))); ("V", inn "oldv");
                                        ("Mm", GMap (Some [("zz", GPtr None); ("k", GPtr (Some (inn "old")))]));
                                        ("T", GPtr (Some (GPrim (PTime 1 2 3))))])))].
  Definition o_junk : goval := GStruct [("X", GPtr None); ("P", GPrim (PInt 3))].
  Definition o_perm : goval := GStruct [("P", GPtr (Some pset)); ("X", GPrim (PInt 5))].

  Example priors_ok :
    prior_emb_ok m (m_zero m) /\ prior_emb_ok m o_set /\ prior_emb_ok m o_deep /\ prior_emb_ok m o_junk
    /\ prior_emb_ok m o_perm /\ same_layout (m_zero m) o_deep /\ same_layout o_set o_junk.
  Proof.
    repeat split; try (vm_compute; reflexivity);
      (eexists; split; [reflexivity|]; split; [apply nodup_b_NoDup; vm_compute; reflexivity|intros k; vm_compute; tauto]).
  Qed.

  (* objects: every promoted attribute null but mm, which is missing (EmbExample.tf_nulls); some
     promoted attributes known; promoted attributes missing; all of them missing; one of the wrong
     constructor *)
  Definition ity : list (string * tfty) := [("a", TyPrim KStr)].
  Definition tf_some : tfval :=
    VObj (msg_ty m) false false
         (Some [("x", VPrim KI64 false false (PInt 1)); ("s", VPrim KStr false false (PStr "new"));
                ("l", VList (TyPrim KI64) true false None);
                ("n", VObj ity false false (Some [("a", VPrim KStr false false (PStr "nn"))]));
                ("v", VObj ity false true None); ("t", VPrim KTime true false (PTime 0 0 0))]).
  Definition tf_miss : tfval :=
    VObj (msg_ty m) false false
         (Some [("x", VPrim KI64 false false (PInt 1)); ("s", VPrim KStr false false (PStr "new"))]).
  Definition tf_missall : tfval := VObj (msg_ty m) false false (Some [("x", VPrim KI64 true false (PInt 0))]).
  Definition tf_wrong : tfval :=
    VObj (msg_ty m) false false
         (Some [("x", VPrim KI64 false true (PInt 0)); ("s", VList (TyPrim KI64) false false (Some []));
                ("mm", VMap (TyObj ity) false false (Some [("k", VObj ity false false None); ("j", VObj ity true false None)]))]).
  (* the attribute of the ORDINARY field missing: outside of the hypothesis *)
  Definition tf_nox : tfval := VObj (msg_ty m) false false (Some [("s", VPrim KStr false false (PStr "new"))]).

  Example inputs_shaped :
    tf_eshaped m tf_nulls = true /\ tf_eshaped m tf_some = true /\ tf_eshaped m tf_miss = true
    /\ tf_eshaped m tf_missall = true /\ tf_eshaped m tf_wrong = true /\ tf_eshaped m tf_nox = false
    /\ (* tf_shaped of PriorProofs.v asks for the promoted attributes too: *) tf_shaped m tf_miss = false.
  Proof. repeat split; vm_compute; reflexivity. Qed.

  (* the theorem on these inputs, for any hook: two very different priors, the same result *)
  Example independent hook t :
    In t [tf_nulls; tf_some; tf_miss; tf_missall; tf_wrong] ->
    copy_from hook m t (m_zero m) = copy_from hook m t o_deep
    /\ copy_from hook m t o_set = copy_from hook m t o_junk.
  Proof.
    destruct priors_ok as (H1 & H2 & H3 & H4 & _ & L1 & L2). destruct class_ok as (HC & _).
    intros [<-|[<-|[<-|[<-|[<-|[]]]]]]; split; apply copy_from_prior_independent_embedded_eq_partial; auto;
      vm_compute; reflexivity.
  Qed.

  (* ... and computed *)
  Example independent_computed :
    forall p, In p [m_zero m; o_set; o_deep; o_junk] ->
    copy_from std_hook_from m tf_some p
    = Ok (GStruct [("X", GPrim (PInt 1));
                   ("P", GPtr (Some (GStruct [("S", GPrim (PStr "new")); ("L", GSlice None); ("N", GPtr (Some (inn "nn")));
                                              ("V", inn ""); ("Mm", GMap None); ("T", GPtr None)])))],
          [(ReadMissing, "Outer.mm")]).
  Proof. intros p [<-|[<-|[<-|[<-|[]]]]]; vm_compute; reflexivity. Qed.

  (* a promoted attribute which is MISSING cannot keep prior content: the embedded pointer is reset
     first, the fields of the fresh struct come from the recorded zero struct *)
  Example missing_promoted_does_not_keep_prior :
    forall p, In p [m_zero m; o_set; o_deep; o_junk] ->
    copy_from std_hook_from m tf_miss p
    = Ok (GStruct [("X", GPrim (PInt 1));
                   ("P", GPtr (Some (GStruct [("S", GPrim (PStr "new")); ("L", GSlice None); ("N", GPtr None);
                                              ("V", inn ""); ("Mm", GMap None); ("T", GPtr None)])))],
          [(ReadMissing, "Outer.l"); (ReadMissing, "Outer.n"); (ReadMissing, "Outer.v"); (ReadMissing, "Outer.mm");
           (ReadMissing, "Outer.t")])
    /\ exists ds, copy_from std_hook_from m tf_missall p = Ok (GStruct [("X", GPrim (PInt 0)); ("P", GPtr None)], ds).
  Proof. intros p [<-|[<-|[<-|[<-|[]]]]]; (split; [|eexists]); vm_compute; reflexivity. Qed.

  (* the hypothesis on the ordinary fields is needed: X keeps its prior content *)
  Example missing_ordinary_keeps_prior :
    (do r <- copy_from std_hook_from m tf_nox o_deep; gfield (fst r) "X") = Ok (GPrim (PInt 9))
    /\ (do r <- copy_from std_hook_from m tf_nox (m_zero m); gfield (fst r) "X") = Ok (GPrim (PInt 0))
    /\ (* the embedded pointer agrees all the same (copy_from_prior_agree_parent_partial) *)
       (do r <- copy_from std_hook_from m tf_nox o_deep; gfield (fst r) "P")
       = (do r <- copy_from std_hook_from m tf_nox (m_zero m); gfield (fst r) "P").
  Proof. repeat split; vm_compute; reflexivity. Qed.

  (* the keys of the prior matter: without the embedded pointer the run panics; a key which is no field
     of the message keeps its content *)
  Example keys_needed :
    copy_from std_hook_from m tf_some (GStruct [("X", GPrim (PInt 1))]) = Panic
    /\ (do r <- copy_from std_hook_from m tf_some (GStruct [("X", GPrim (PInt 1)); ("P", GPtr None); ("Other", GPrim (PInt 5))]);
        gfield (fst r) "Other") = Ok (GPrim (PInt 5)).
  Proof. split; vm_compute; reflexivity. Qed.

  (* priors with the keys in another order: equality under every key, not of the structs *)
  Example order_matters :
    copy_from std_hook_from m tf_some o_set <> copy_from std_hook_from m tf_some o_perm.
  Proof. vm_compute. discriminate. Qed.

  Example independent_lookup hook g1 d1 g2 d2 :
    copy_from hook m tf_some o_deep = Ok (g1, d1) -> copy_from hook m tf_some o_perm = Ok (g2, d2) ->
    d1 = d2 /\ forall k, gfield g1 k = gfield g2 k.
  Proof.
    destruct priors_ok as (_ & _ & H3 & _ & H5 & _). destruct class_ok as (HC & _).
    apply copy_from_prior_independent_embedded_partial; auto using prior_emb_ok_keys; vm_compute; reflexivity.
  Qed.

  (* a custom type under the embedded pointer: in the class, for any user function *)
  Example custom_independent hook t :
    In t [tf_nulls; tf_some; tf_missall] -> copy_from hook m_custom t o_set = copy_from hook m_custom t o_junk.
  Proof.
    assert (K : forall p, In p [o_set; o_junk] -> prior_emb_ok m_custom p).
    { intros p [<-|[<-|[]]];
        (eexists; split; [reflexivity|]; split; [apply nodup_b_NoDup; vm_compute; reflexivity|intros k; vm_compute; tauto]). }
    intros [<-|[<-|[<-|[]]]]; apply copy_from_prior_independent_embedded_eq_partial;
      try (apply K; cbn; tauto); vm_compute; reflexivity.
  Qed.

  (* the chain of three embedded pointers *)
  Definition r_all2 := root (Some (bset 5 "vv" (Some (cset "cc" (Some (dset "dd" (Some [GPrim (PStr "e"); GPrim (PStr "f")]))))))).
  Definition r_junk := root (Some (GPrim (PInt 1))).
  Definition tf_dl : tfval :=
    VObj (msg_ty m3) false false (Some [("own", kI 1); ("d_list", VList (TyPrim KStr) false false (Some [kS "q"]))]).
  Definition tf_own : tfval := VObj (msg_ty m3) false false (Some [("own", kI 1)]).
  Definition root1 (b : option goval) := GStruct [("Own", GPrim (PInt 1)); ("B", GPtr b)].
  Definition tf3_nulls : tfval := out3 (kI 7) nI nS nS nS (VList (TyPrim KStr) true false None).

  Example chain_priors_ok : forall p, In p [m_zero m3; r_nil; r_b; r_bc; r_all; r_all2; r_junk] -> prior_emb_ok m3 p.
  Proof.
    intros p Hp. repeat (destruct Hp as [<-|Hp];
      [eexists; split; [vm_compute; reflexivity|]; split; [apply nodup_b_NoDup; vm_compute; reflexivity|intros k; vm_compute; tauto]|]).
    destruct Hp.
  Qed.

  Example chain_independent hook t p1 p2 :
    In t [tf_dl; tf_own; tf3_nulls; out3 (kI 7) (kI 1) (kS "v") (kS "c") nS nL] ->
    In p1 [m_zero m3; r_nil; r_b; r_bc; r_all; r_all2; r_junk] -> In p2 [m_zero m3; r_nil; r_b; r_bc; r_all; r_all2; r_junk] ->
    copy_from hook m3 t p1 = copy_from hook m3 t p2.
  Proof.
    intros Ht H1 H2. apply copy_from_prior_independent_embedded_eq_partial.
    - vm_compute. reflexivity.
    - repeat (destruct Ht as [<-|Ht]; [vm_compute; reflexivity|]). destruct Ht.
    - now apply chain_priors_ok.
    - now apply chain_priors_ok.
    - repeat (destruct H1 as [<-|H1]; [repeat (destruct H2 as [<-|H2]; [vm_compute; reflexivity|]); destruct H2|]). destruct H1.
  Qed.

  Example chain_computed :
    forall p, In p [r_nil; r_bc; r_all2; r_junk] ->
    copy_from std_hook_from m3 tf_dl p
    = Ok (root1 (Some (bset 0 "" (Some (cset "" (Some (dset "" (Some [GPrim (PStr "q")]))))))),
          [(ReadMissing, "Root.b_int"); (ReadMissing, "Root.v_str"); (ReadMissing, "Root.c_str"); (ReadMissing, "Root.d_str")])
    /\ exists ds, copy_from std_hook_from m3 tf_own p = Ok (root1 None, ds).
  Proof. intros p [<-|[<-|[<-|[<-|[]]]]]; (split; [|eexists]); vm_compute; reflexivity. Qed.

  (* the reset corollary *)
  Definition tf_allnull : tfval :=
    VObj (msg_ty m) false false
         (Some [("x", VPrim KI64 true false (PInt 0)); ("s", VPrim KStr true false (PStr ""));
                ("l", VList (TyPrim KI64) false true None); ("n", VObj ity true false None);
                ("v", VObj ity false true None); ("mm", VMap (TyObj ity) true false None);
                ("t", VPrim KTime false true (PTime 0 0 0))]).

  Lemma m_zeros : ezeros_zero m.
  Proof.
    intros i m' Hf P. exfalso. cbn [m m_fields] in Hf.
    repeat (destruct Hf as [Hf|Hf]; [try discriminate Hf; injection Hf as <- <-; discriminate P|]). destruct Hf.
  Qed.

  Lemma m3_zeros_zero : ezeros_zero m3.
  Proof.
    intros i m' Hf P. exfalso. cbn [m3 m_fields] in Hf.
    repeat (destruct Hf as [Hf|Hf]; [try discriminate Hf; injection Hf as <- <-; discriminate P|]). destruct Hf.
  Qed.

  Example all_null_ok : all_null m tf_allnull = true /\ all_null m tf_nulls = false /\ all_null m3 tf3_nulls = false
                        /\ all_null m3 (out3 nI nI nS nS nS (VList (TyPrim KStr) true false None)) = true.
  Proof. repeat split; vm_compute; reflexivity. Qed.

  Example resets hook p :
    In p [m_zero m; o_set; o_deep; o_junk; o_perm] ->
    exists g, copy_from hook m tf_allnull p = Ok (g, []) /\ is_zero_emb m g.
  Proof.
    destruct priors_ok as (H1 & H2 & H3 & H4 & H5 & _).
    intros [<-|[<-|[<-|[<-|[<-|[]]]]]]; apply copy_from_all_null_resets_embedded_partial;
      auto using m_zeros, prior_emb_ok_keys; vm_compute; reflexivity.
  Qed.

  Example resets_computed :
    copy_from std_hook_from m tf_allnull o_deep = Ok (GStruct [("X", GPrim (PInt 0)); ("P", GPtr None)], []).
  Proof. vm_compute. reflexivity. Qed.

  Example chain_resets hook p :
    In p [m_zero m3; r_nil; r_b; r_bc; r_all; r_all2; r_junk] ->
    exists g, copy_from hook m3 (out3 nI nI nS nS nS (VList (TyPrim KStr) true false None)) p = Ok (g, [])
              /\ is_zero_emb m3 g.
  Proof.
    intros Hp. apply copy_from_all_null_resets_embedded_partial;
      [vm_compute; reflexivity|exact m3_zeros_zero|vm_compute; reflexivity|].
    apply prior_emb_ok_keys. now apply chain_priors_ok.
  Qed.

  (* a custom type under the embedded pointer is outside the class of the reset corollary: the pointer
     is allocated whatever the attributes hold (EmbExample.custom_from_allocates) *)
  Example custom_never_resets :
    copy_from std_hook_from m_custom tf_allnull o_deep = Ok (GStruct [("X", GPrim (PInt 0)); ("P", GPtr (Some pzero))], []).
  Proof. vm_compute. reflexivity. Qed.
End PriorEmbExample.

Print Assumptions from_fields_prior_agree_written.
Print Assumptions from_fields_prior_independent_emb.
Print Assumptions copy_from_prior_independent_embedded_lookup_partial.
Print Assumptions copy_from_prior_independent_embedded_partial.
Print Assumptions copy_from_prior_panics_together_embedded_partial.
Print Assumptions copy_from_prior_independent_embedded_eq_partial.
Print Assumptions copy_from_prior_agree_embedded_partial.
Print Assumptions copy_from_prior_agree_parent_partial.
Print Assumptions copy_from_prior_independent_emb_ok_partial.
Print Assumptions copy_from_prior_independent_embc_ok_partial.
Print Assumptions copy_from_all_null_resets_embedded_partial.
