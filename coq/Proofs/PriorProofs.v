(* C05 at the level of the message, strongest form: the result of Copy<T>FromTerraform does not
   depend on what the target struct held before (copy_from_prior_independent_partial), and a
   Terraform object whose attributes are all null or unknown resets the struct to the zero message
   (copy_from_all_null_resets_partial).

   Method: CopyFrom only WRITES the target (for fields reached directly and which are not custom
   types): the nested messages are decoded into fresh zero values, so that two runs from two priors
   are in lock step: they panic together or write the same value under the same key.  The relation
   [kinv] between the two targets (same key lists as at the start, same values under the keys written
   so far) is carried through the resets at the head of CopyFrom and through the fields; no induction
   over the IR and no totality argument are needed, and the class [pi_ok] constrains the top-level
   fields of the message only (fi_via = [], fi_parent = None, no custom type; distinct Go keys).

   Hypothesis on the object, [tf_shaped]: every attribute of a top-level field which is not a oneof
   branch is present with the constructor of the field's kind (null and unknown values included;
   nothing is asked of the payloads, of the oneof branches, of the nested values).  It is needed: a
   missing or ill-kinded attribute leaves the field as the prior had it
   (from_field_unshaped_keeps_prior, PriorExample.missing_keeps_prior, wrong_kind_keeps_prior), and an
   object which is itself null or unknown has no attributes at all: CopyFrom never looks at the flags
   of the object, so everything but the oneof holders keeps its prior content
   (PriorExample.null_object_keeps_prior).  [conforms] of CopyToTotal.v would be too strong: it
   excludes unknown values.

   Priors, [prior_ok]: structs whose keys are a permutation of the Go keys of the message; for the
   syntactic equality the two priors list their keys in the same order ([same_layout]: update
   replaces in place, the result has the key order of the prior; PriorExample.order_matters).  For
   priors with different orders the results agree under every key
   (copy_from_prior_independent_lookup_partial).

   The zero message [is_zero_msg]: slices and maps are reset to EMPTY values (GSlice (Some []),
   GMap (Some [])), not to nil: this is what the emitted code assigns. *)
From Coq Require Import List String Bool ZArith Lia Permutation.
From Coq Require Import Floats.SpecFloat.
From PGT Require Import Base.Strs Base.AList Model.Vals Model.IR Model.CopyFrom.
From PGT Require Import Proofs.CopyFromProofs Proofs.CopyToTotal Proofs.MsgRoundTrip.
Import ListNotations.

(* ------------------------------------------------------------------------------------- *)
(* 1. association lists *)

Lemma alist_ext {A} (a : list (string * A)) : forall b,
  keys a = keys b -> NoDup (keys a) ->
  (forall k, In k (keys a) -> lookup k a = lookup k b) -> a = b.
Proof.
  induction a as [|[k v] r IH]; intros [|[k' v'] r'] HK HN HL; cbn [keys map fst] in HK; try discriminate HK.
  - reflexivity.
  - injection HK as Hk Hr. subst k'. cbn [keys map fst] in HN. inversion HN as [|x l Hnot Hnd]; subst.
    pose proof (HL k (or_introl eq_refl)) as Hv. cbn [lookup] in Hv. rewrite String.eqb_refl in Hv.
    injection Hv as Hv. subst v'. f_equal. apply IH; [exact Hr|exact Hnd|].
    intros k0 Hk0. pose proof (HL k0 (or_intror Hk0)) as H0. cbn [lookup] in H0.
    destruct (String.eqb k0 k) eqn:E; [|exact H0].
    apply String.eqb_eq in E. subst k0. contradiction.
Qed.

(* ------------------------------------------------------------------------------------- *)
(* 2. two targets in lock step *)

Section LockStep.
  (* the key lists of the two priors: the same keys, in any order, with any repetition *)
  Variables K1 K2 : list string.
  Hypothesis HK : forall k, In k K1 <-> In k K2.

  (* the two targets have the key lists they started with and agree under the keys W *)
  Definition kinv (W : list string) (a b : list (string * goval)) : Prop :=
    keys a = K1 /\ keys b = K2 /\ forall k, In k W -> lookup k a = lookup k b.

  Definition rel_obj (W : list string) (r1 r2 : res goval) : Prop :=
    match r1, r2 with
    | Panic, Panic => True
    | Ok (GStruct a), Ok (GStruct b) => kinv W a b
    | _, _ => False
    end.

  Definition rel_res (W : list string) (r1 r2 : res fstate) : Prop :=
    match r1, r2 with
    | Panic, Panic => True
    | Ok (GStruct a, d1), Ok (GStruct b, d2) => d1 = d2 /\ kinv W a b
    | _, _ => False
    end.

  Lemma kinv_mono W W' a b : incl W' W -> kinv W a b -> kinv W' a b.
  Proof. intros HI (H1 & H2 & H3). split; [exact H1|]. split; [exact H2|]. intros k Hk. apply H3, HI, Hk. Qed.

  Lemma rel_obj_mono W W' r1 r2 : incl W' W -> rel_obj W r1 r2 -> rel_obj W' r1 r2.
  Proof.
    intros HI. destruct r1 as [[| | | | |a|]|], r2 as [[| | | | |b|]|]; cbn [rel_obj]; try tauto.
    now apply kinv_mono.
  Qed.

  Lemma rel_res_mono W W' r1 r2 : incl W' W -> rel_res W r1 r2 -> rel_res W' r1 r2.
  Proof.
    intros HI. destruct r1 as [[[| | | | |a|] d1]|], r2 as [[[| | | | |b|] d2]|]; cbn [rel_res]; try tauto.
    intros [Hd Hk]. split; [exact Hd|]. now apply (kinv_mono W).
  Qed.

  (* one assignment obj.<k> = v *)
  Lemma gset_rel W a b k v :
    kinv W a b -> rel_obj (k :: W) (gset (GStruct a) k v) (gset (GStruct b) k v).
  Proof.
    intros (H1 & H2 & H3). destruct (in_dec string_dec k K1) as [Hin|Hout].
    - rewrite (gset_in a k v) by (rewrite H1; exact Hin).
      rewrite (gset_in b k v) by (rewrite H2; apply HK; exact Hin).
      cbn [rel_obj]. split; [|split].
      + rewrite keys_update_same by (rewrite H1; exact Hin). exact H1.
      + rewrite keys_update_same by (rewrite H2; apply HK; exact Hin). exact H2.
      + intros k0 Hk0. destruct (string_dec k0 k) as [->|Hne].
        * now rewrite !lookup_update_eq.
        * rewrite !lookup_update_neq by exact Hne. destruct Hk0 as [Hk0|Hk0]; [congruence|now apply H3].
    - assert (Ha : lookup k a = None) by (apply lookup_None_keys; rewrite H1; exact Hout).
      assert (Hb : lookup k b = None).
      { apply lookup_None_keys. rewrite H2. intros Hin. apply Hout. apply HK. exact Hin. }
      cbn [gset]. rewrite Ha, Hb. exact I.
  Qed.

  (* ... followed by the rest of the field's code *)
  Lemma rel_gset W W' a b k v (c1 c2 : goval -> res fstate) :
    kinv W a b ->
    (forall a' b', kinv (k :: W) a' b' -> rel_res W' (c1 (GStruct a')) (c2 (GStruct b'))) ->
    rel_res W' (bind (gset (GStruct a) k v) c1) (bind (gset (GStruct b) k v) c2).
  Proof.
    intros HI HC. pose proof (gset_rel W a b k v HI) as HG.
    destruct (gset (GStruct a) k v) as [[| | | | |a'|]|], (gset (GStruct b) k v) as [[| | | | |b'|]|];
      cbn [rel_obj] in HG; try contradiction; cbn [bind]; [now apply HC|exact I].
  Qed.

  Lemma fold_res_rel {A} (g : goval -> A -> res goval) (C : A -> list string) :
    (forall x W a b, kinv W a b -> rel_obj (C x ++ W) (g (GStruct a) x) (g (GStruct b) x)) ->
    forall l W a b, kinv W a b ->
      rel_obj (flat_map C l ++ W) (fold_res g l (GStruct a)) (fold_res g l (GStruct b)).
  Proof.
    intros Hg. induction l as [|x r IH]; intros W a b HI; cbn [fold_res flat_map app]; [exact HI|].
    pose proof (Hg x W a b HI) as H1.
    destruct (g (GStruct a) x) as [[| | | | |a'|]|], (g (GStruct b) x) as [[| | | | |b'|]|];
      cbn [rel_obj] in H1; try contradiction; cbn [bind]; [|exact I].
    apply (rel_obj_mono (flat_map C r ++ (C x ++ W))); [|now apply IH].
    intros k Hk. rewrite !in_app_iff in *. tauto.
  Qed.

  (* ----------------------------------------------------------------------------------- *)
  (* 3. one field *)

  (* the attribute value has the constructor the field's code type-asserts *)
  Definition shaped (i : finfo) (x : tfval) : bool :=
    match fi_kind i, x with
    | PrimitiveKind, VPrim k _ _ _ => tfkind_eqb k (fi_tk i)
    | ObjectKind, VObj _ _ _ _ => true
    | PrimitiveListKind, VList _ _ _ _ | ObjectListKind, VList _ _ _ _ => true
    | PrimitiveMapKind, VMap _ _ _ _ | ObjectMapKind, VMap _ _ _ _ => true
    | _, _ => false
    end.

  (* the key a field which is not a oneof branch is certain to assign *)
  Definition fcover (l : list (string * tfval)) (f : field) : list string :=
    match fi_oneof (f_info f) with
    | Some _ => []
    | None =>
        match lookup (fi_snake (f_info f)) l with
        | Some x => if shaped (f_info f) x then [fi_name (f_info f)] else []
        | None => []
        end
    end.

  Ltac incl_tac := let k := fresh "k" in let Hk := fresh "Hk" in
                   intros k Hk; cbn in Hk |- *; tauto.

  Ltac inner x :=
    lazymatch x with
    | match ?y with _ => _ end => inner y
    | _ => destruct x
    end.

  Ltac rel_step :=
    match goal with
    | |- rel_res _ Panic Panic => exact I
    | HI : kinv _ ?a ?b |- rel_res _ (Ok (GStruct ?a, _)) (Ok (GStruct ?b, _)) =>
        split; [reflexivity|eapply kinv_mono; [|exact HI]; incl_tac]
    | HI : kinv _ ?a ?b |- rel_res _ (bind (gset (GStruct ?a) _ _) _) (bind (gset (GStruct ?b) _ _) _) =>
        let a' := fresh "a" in let b' := fresh "b" in let HI' := fresh "HI" in
        apply (rel_gset _ _ _ _ _ _ _ _ HI); clear HI; intros a' b' HI'; cbn beta
    | |- rel_res _ (bind ?x _) _ => inner x; cbn [bind]
    | |- rel_res _ (match ?x with _ => _ end) _ => inner x; cbn [bind]
    end.

  Lemma from_field_None hook f st : from_field hook f None st = from_field hook f (Some []) st.
  Proof. destruct f as [i om], st as [obj ds]. reflexivity. Qed.

  Lemma from_field_rel hook i om l W a b ds :
    fi_via i = [] -> fi_parent i = None -> fi_kind i <> CustomKind ->
    kinv W a b ->
    rel_res (fcover l (Field i om) ++ W)
            (from_field hook (Field i om) (Some l) (GStruct a, ds))
            (from_field hook (Field i om) (Some l) (GStruct b, ds)).
  Proof.
    intros V P NC HI. unfold fcover, shaped. cbn [from_field f_info]. fold (from_fields hook).
    rewrite V, P. unfold alloc_parent. rewrite P. cbn [gset_via bind].
    destruct (lookup (fi_snake i) l) as [x|] eqn:EL.
    2:{ destruct (fi_kind i); try congruence; destruct (fi_oneof i); rel_step. }
    unfold as_prim.
    destruct (fi_kind i) eqn:EK; try congruence; destruct (fi_oneof i) as [h|]; repeat rel_step.
  Qed.

  (* ----------------------------------------------------------------------------------- *)
  (* 4. the fields, the resets, the message *)

  (* the restriction on one field (the placeholder is skipped by the emitted code): it is reached
     directly, and it is not a custom type *)
  Definition pi_field_ok (f : field) : bool :=
    fi_placeholder (f_info f)
    || (match fi_via (f_info f) with [] => true | _ => false end
        && match fi_parent (f_info f) with None => true | Some _ => false end
        && negb (kind_eqb (fi_kind (f_info f)) CustomKind)).

  Lemma pi_field_ok_inv f :
    pi_field_ok f = true -> fi_placeholder (f_info f) = false ->
    fi_via (f_info f) = [] /\ fi_parent (f_info f) = None /\ fi_kind (f_info f) <> CustomKind.
  Proof.
    unfold pi_field_ok. intros H PH. rewrite PH in H. cbn [orb] in H.
    apply andb_prop in H. destruct H as [H H3]. apply andb_prop in H. destruct H as [H1 H2].
    split; [destruct (fi_via (f_info f)); [reflexivity|discriminate]|].
    split; [destruct (fi_parent (f_info f)); [discriminate|reflexivity]|].
    intros E. rewrite E in H3. discriminate.
  Qed.

  Definition cover (l : list (string * tfval)) (f : field) : list string :=
    if fi_placeholder (f_info f) then [] else fcover l f.

  Lemma from_field_list_rel hook l fs : forall W a b ds,
    forallb pi_field_ok fs = true ->
    kinv W a b ->
    rel_res (flat_map (cover l) fs ++ W)
            (from_field_list hook fs (Some l) (GStruct a, ds))
            (from_field_list hook fs (Some l) (GStruct b, ds)).
  Proof.
    induction fs as [|f r IH]; intros W a b ds HF HI; cbn [from_field_list flat_map app].
    - split; [reflexivity|exact HI].
    - cbn [forallb] in HF. apply andb_prop in HF. destruct HF as [Hf Hr]. unfold cover at 1.
      destruct (fi_placeholder (f_info f)) eqn:PH; [now apply IH|].
      destruct (pi_field_ok_inv f Hf PH) as (V & P & NC). destruct f as [i om]. cbn [f_info] in V, P, NC.
      pose proof (from_field_rel hook i om l W a b ds V P NC HI) as H1.
      destruct (from_field hook (Field i om) (Some l) (GStruct a, ds)) as [[[| | | | |a'|] d1]|],
               (from_field hook (Field i om) (Some l) (GStruct b, ds)) as [[[| | | | |b'|] d2]|];
        cbn [rel_res] in H1; try contradiction; cbn [bind]; [|exact I].
      destruct H1 as [<- H1].
      apply (rel_res_mono (flat_map (cover l) r ++ (fcover l (Field i om) ++ W))); [|now apply IH].
      intros k Hk. rewrite !in_app_iff in *. tauto.
  Qed.

  (* the keys the three reset loops assign *)
  Definition parent_keys (i : finfo) : list string :=
    match fi_parent i with Some (pn, _) => [pn] | None => [] end.

  Lemma reset_oneof_rel h W a b :
    kinv W a b -> rel_obj ([h] ++ W) (reset_oneof (GStruct a) h) (reset_oneof (GStruct b) h).
  Proof. intros HI. unfold reset_oneof. now apply gset_rel. Qed.

  Lemma reset_promoted_rel f W a b :
    kinv W a b ->
    rel_obj (promoted_keys (f_info f) ++ W) (reset_promoted (GStruct a) f) (reset_promoted (GStruct b) f).
  Proof.
    intros HI. unfold reset_promoted, promoted_keys. destruct (fi_oneof (f_info f)) as [h|]; [|exact HI].
    destruct (fi_parent (f_info f)); [exact HI|]. now apply gset_rel.
  Qed.

  Lemma reset_parent_rel f W a b :
    kinv W a b ->
    rel_obj (parent_keys (f_info f) ++ W) (reset_parent (GStruct a) f) (reset_parent (GStruct b) f).
  Proof.
    intros HI. unfold reset_parent, parent_keys. destruct (fi_parent (f_info f)) as [[pn pz]|]; [|exact HI].
    now apply gset_rel.
  Qed.

  (* the keys a run of CopyFrom is certain to assign *)
  Definition written (m : message) (l : list (string * tfval)) : list string :=
    flat_map (cover l) (m_fields m)
    ++ flat_map (fun f => promoted_keys (f_info f)) (m_fields m)
    ++ m_oneofs m.

  Lemma from_fields_None hook m st : from_fields hook m None st = from_fields hook m (Some []) st.
  Proof.
    destruct m as [n fs os inj e z]. rewrite !from_fields_unfold.
    destruct (fold_res reset_oneof os (fst st)) as [o1|]; [|reflexivity]. cbn [bind].
    destruct (fold_res reset_promoted fs o1) as [o2|]; [|reflexivity]. cbn [bind].
    destruct (fold_res reset_parent fs o2) as [o3|]; [|reflexivity]. cbn [bind].
    generalize (o3, snd st). induction fs as [|f r IH]; intros s; cbn [from_field_list]; [reflexivity|].
    destruct (fi_placeholder (f_info f)); [apply IH|]. rewrite from_field_None.
    destruct (from_field hook f (Some []) s); [|reflexivity]. cbn [bind]. apply IH.
  Qed.

  Lemma from_fields_rel hook m l a b ds :
    forallb pi_field_ok (m_fields m) = true ->
    keys a = K1 -> keys b = K2 ->
    rel_res (written m l) (from_fields hook m (Some l) (GStruct a, ds)) (from_fields hook m (Some l) (GStruct b, ds)).
  Proof.
    destruct m as [n fs os inj e z]. cbn [m_fields]. intros HF Ha Hb. rewrite !from_fields_unfold. cbn [fst snd].
    assert (HI : kinv [] a b) by (split; [exact Ha|split; [exact Hb|intros k []]]).
    pose proof (fold_res_rel reset_oneof (fun h => [h]) reset_oneof_rel os [] a b HI) as H1.
    destruct (fold_res reset_oneof os (GStruct a)) as [[| | | | |a1|]|],
             (fold_res reset_oneof os (GStruct b)) as [[| | | | |b1|]|];
      cbn [rel_obj] in H1; try contradiction; cbn [bind]; [|exact I].
    pose proof (fold_res_rel reset_promoted (fun f => promoted_keys (f_info f)) reset_promoted_rel fs _ a1 b1 H1) as H2.
    destruct (fold_res reset_promoted fs (GStruct a1)) as [[| | | | |a2|]|],
             (fold_res reset_promoted fs (GStruct b1)) as [[| | | | |b2|]|];
      cbn [rel_obj] in H2; try contradiction; cbn [bind]; [|exact I].
    pose proof (fold_res_rel reset_parent (fun f => parent_keys (f_info f)) reset_parent_rel fs _ a2 b2 H2) as H3.
    destruct (fold_res reset_parent fs (GStruct a2)) as [[| | | | |a3|]|],
             (fold_res reset_parent fs (GStruct b2)) as [[| | | | |b3|]|];
      cbn [rel_obj] in H3; try contradiction; cbn [bind]; [|exact I].
    eapply rel_res_mono; [|apply (from_field_list_rel hook l fs _ a3 b3 ds HF H3)].
    unfold written. cbn [m_fields m_oneofs]. intros k Hk. rewrite !in_app_iff in *.
    assert (E : In k (flat_map (fun h : string => [h]) os) <-> In k os).
    { clear. induction os as [|h r IH]; cbn; tauto. }
    rewrite E. tauto.
  Qed.
End LockStep.

(* ------------------------------------------------------------------------------------- *)
(* 5. independence of the prior content, general form *)

(* the two results up to the order of the struct's keys: both runs panic, or both return, with the
   same diagnostics, structs which keep their key lists and hold the same value under every key *)
Definition same_fields (K1 K2 : list string) (r1 r2 : res fstate) : Prop :=
  match r1, r2 with
  | Panic, Panic => True
  | Ok (g1, d1), Ok (g2, d2) =>
      d1 = d2 /\ exists a b, g1 = GStruct a /\ g2 = GStruct b /\ keys a = K1 /\ keys b = K2
                             /\ forall k, gfield g1 k = gfield g2 k
  | _, _ => False
  end.

Lemma from_fields_attrs_list hook m attrs st :
  from_fields hook m attrs st = from_fields hook m (Some (attrs_list attrs)) st.
Proof. destruct attrs as [l|]; [reflexivity|apply from_fields_None]. Qed.

(* the priors have the same keys, in any order; every key is assigned by the run *)
Theorem from_fields_prior_independent_lookup hook m attrs fs1 fs2 ds :
  forallb pi_field_ok (m_fields m) = true ->
  (forall k, In k (keys fs1) <-> In k (keys fs2)) ->
  (forall k, In k (keys fs1) -> In k (written m (attrs_list attrs))) ->
  same_fields (keys fs1) (keys fs2)
              (from_fields hook m attrs (GStruct fs1, ds)) (from_fields hook m attrs (GStruct fs2, ds)).
Proof.
  intros HF HK HC. rewrite !(from_fields_attrs_list hook m attrs).
  pose proof (from_fields_rel (keys fs1) (keys fs2) HK hook m (attrs_list attrs) fs1 fs2 ds HF eq_refl eq_refl) as H.
  destruct (from_fields hook m (Some (attrs_list attrs)) (GStruct fs1, ds)) as [[[| | | | |a|] d1]|],
           (from_fields hook m (Some (attrs_list attrs)) (GStruct fs2, ds)) as [[[| | | | |b|] d2]|];
    cbn [rel_res] in H; try contradiction; cbn [same_fields]; [|exact I].
  destruct H as (Hd & Ha & Hb & HL). split; [exact Hd|]. exists a, b. repeat (split; [reflexivity || assumption|]).
  intros k. cbn [gfield]. destruct (in_dec string_dec k (keys fs1)) as [Hin|Hout].
  - now rewrite (HL k (HC k Hin)).
  - assert (E1 : lookup k a = None) by (apply lookup_None_keys; rewrite Ha; exact Hout).
    assert (E2 : lookup k b = None) by (apply lookup_None_keys; rewrite Hb; intros X; apply Hout, HK, X).
    now rewrite E1, E2.
Qed.

(* the priors have the same key list, without repetition: the results are equal *)
Theorem from_fields_prior_independent hook m attrs fs1 fs2 ds :
  forallb pi_field_ok (m_fields m) = true ->
  keys fs1 = keys fs2 -> NoDup (keys fs1) ->
  (forall k, In k (keys fs1) -> In k (written m (attrs_list attrs))) ->
  from_fields hook m attrs (GStruct fs1, ds) = from_fields hook m attrs (GStruct fs2, ds).
Proof.
  intros HF HK HN HC. rewrite !(from_fields_attrs_list hook m attrs).
  assert (HK' : forall k, In k (keys fs1) <-> In k (keys fs2)) by (intros k; now rewrite HK).
  pose proof (from_fields_rel (keys fs1) (keys fs2) HK' hook m (attrs_list attrs) fs1 fs2 ds HF eq_refl eq_refl) as H.
  destruct (from_fields hook m (Some (attrs_list attrs)) (GStruct fs1, ds)) as [[[| | | | |a|] d1]|],
           (from_fields hook m (Some (attrs_list attrs)) (GStruct fs2, ds)) as [[[| | | | |b|] d2]|];
    cbn [rel_res] in H; try contradiction; [|reflexivity].
  destruct H as (Hd & Ha & Hb & HL). subst d2. do 3 f_equal.
  apply alist_ext; [congruence|now rewrite Ha|]. rewrite Ha. intros k Hk. apply HL, HC, Hk.
Qed.

(* ------------------------------------------------------------------------------------- *)
(* 6. the statement on the class *)

(* the class: the top-level fields are reached directly and are no custom types; the Go field names
   and the oneof holders are pairwise distinct.  The nested messages are arbitrary. *)
Definition pi_ok (m : message) : bool :=
  forallb pi_field_ok (m_fields m) && nodup_b (go_keys (m_fields m) (m_oneofs m)).

(* the prior is a struct with exactly the Go fields of the message, each once, in any order; the
   values it holds are arbitrary *)
Definition prior_ok (m : message) (p : goval) : Prop :=
  exists fs, p = GStruct fs /\ Permutation (keys fs) (go_keys (m_fields m) (m_oneofs m)).

(* the two priors are values of the same Go struct type: the fields come in the same order (the order
   of m_zero m need not be the order of the IR's fields: the generator may sort the latter) *)
Definition same_layout (p1 p2 : goval) : Prop :=
  match p1, p2 with
  | GStruct a, GStruct b => keys a = keys b
  | _, _ => False
  end.

(* weaker: the keys of the struct are the Go fields of the message, in any order, possibly repeated *)
Definition prior_keys (m : message) (p : goval) : Prop :=
  exists fs, p = GStruct fs /\ forall k, In k (keys fs) <-> In k (go_keys (m_fields m) (m_oneofs m)).

Lemma prior_ok_keys m p : prior_ok m p -> prior_keys m p.
Proof.
  intros (fs & E & HP). exists fs. split; [exact E|]. intros k. split; intros H.
  - eapply Permutation_in; eauto.
  - eapply Permutation_in; [apply Permutation_sym|]; eauto.
Qed.

(* the special case of the declaration order *)
Lemma prior_decl_ok m fs : keys fs = go_keys (m_fields m) (m_oneofs m) -> prior_ok m (GStruct fs).
Proof. intros E. exists fs. split; [reflexivity|]. now rewrite E. Qed.

(* the hypothesis on the Terraform object: every attribute of a field which is not a oneof branch
   is present, with the constructor of the field's kind (a null or unknown value has it).  Nothing
   is asked of the branches of the oneofs, nor of the nested values. *)
Definition attr_shaped (l : list (string * tfval)) (f : field) : bool :=
  fi_placeholder (f_info f)
  || match fi_oneof (f_info f) with
     | Some _ => true
     | None => match lookup (fi_snake (f_info f)) l with Some x => shaped (f_info f) x | None => false end
     end.

Definition attrs_shaped (m : message) (attrs : option (list (string * tfval))) : bool :=
  forallb (attr_shaped (attrs_list attrs)) (m_fields m).

Definition tf_shaped (m : message) (t : tfval) : bool :=
  match t with VObj _ _ _ at0 => attrs_shaped m at0 | _ => false end.

Lemma shaped_written m attrs k :
  attrs_shaped m attrs = true -> In k (go_keys (m_fields m) (m_oneofs m)) -> In k (written m (attrs_list attrs)).
Proof.
  unfold attrs_shaped, go_keys, written, own_names. intros HS Hk. rewrite forallb_forall in HS.
  rewrite !in_app_iff in *. destruct Hk as [Hk|Hk]; [left|tauto].
  apply in_flat_map in Hk. destruct Hk as (f & Hf & Hk). apply in_flat_map. exists f. split; [exact Hf|].
  specialize (HS f Hf). unfold attr_shaped in HS. unfold cover, fcover.
  destruct (fi_placeholder (f_info f)); [destruct Hk|]. cbn [orb] in HS.
  destruct (fi_oneof (f_info f)); [destruct Hk|].
  destruct (lookup (fi_snake (f_info f)) (attrs_list attrs)); [|discriminate]. rewrite HS. exact Hk.
Qed.

Theorem from_fields_prior_independent_partial hook m attrs p1 p2 ds :
  pi_ok m = true -> attrs_shaped m attrs = true -> prior_ok m p1 -> prior_ok m p2 -> same_layout p1 p2 ->
  from_fields hook m attrs (p1, ds) = from_fields hook m attrs (p2, ds).
Proof.
  intros HM HS (fs1 & -> & H1) (fs2 & -> & H2) HL. cbn [same_layout] in HL.
  unfold pi_ok in HM. apply andb_prop in HM. destruct HM as [HF HN].
  apply nodup_b_NoDup in HN. apply from_fields_prior_independent; [exact HF|exact HL| |].
  - apply (Permutation_NoDup (Permutation_sym H1) HN).
  - intros k Hk. apply shaped_written; [exact HS|]. exact (Permutation_in k H1 Hk).
Qed.

(* C05, strongest form: the result of CopyFrom does not depend on the content of the target *)
Theorem copy_from_prior_independent_partial hook m t p1 p2 :
  pi_ok m = true -> tf_shaped m t = true -> prior_ok m p1 -> prior_ok m p2 -> same_layout p1 p2 ->
  copy_from hook m t p1 = copy_from hook m t p2.
Proof.
  intros HM HS H1 H2 HL. destruct t; try discriminate HS. cbn [copy_from tf_shaped] in *.
  now apply from_fields_prior_independent_partial.
Qed.

(* the hypothesis on the object cannot be dropped: a field whose attribute is missing, or has another
   constructor, leaves the target as it was (and appends a diagnostic) *)
Lemma from_field_unshaped_keeps_prior hook i om l obj ds :
  fi_kind i <> CustomKind -> (fi_kind i = ObjectKind -> om <> None) ->
  match lookup (fi_snake i) l with Some x => shaped i x = false | None => True end ->
  exists d, from_field hook (Field i om) (Some l) (obj, ds) = Ok (obj, diag_append ds d).
Proof.
  intros NC HM HS. cbn [from_field]. destruct (lookup (fi_snake i) l) as [x|].
  - unfold shaped in HS. unfold as_prim.
    destruct (fi_kind i) eqn:EK; try congruence; destruct x; try discriminate HS; rewrite ?HS; eauto;
      destruct om; try (now specialize (HM eq_refl)); eauto.
  - destruct (fi_kind i); try congruence; eauto.
Qed.

(* the same for priors whose keys come in different orders: equality under every key *)
Theorem copy_from_prior_independent_lookup_partial hook m t p1 p2 :
  forallb pi_field_ok (m_fields m) = true -> tf_shaped m t = true -> prior_keys m p1 -> prior_keys m p2 ->
  match copy_from hook m t p1, copy_from hook m t p2 with
  | Panic, Panic => True
  | Ok (g1, d1), Ok (g2, d2) => d1 = d2 /\ forall k, gfield g1 k = gfield g2 k
  | _, _ => False
  end.
Proof.
  intros HF HS (fs1 & -> & H1) (fs2 & -> & H2). destruct t; try discriminate HS. cbn [copy_from tf_shaped] in *.
  pose proof (from_fields_prior_independent_lookup hook m attrs fs1 fs2 [] HF) as H.
  unfold same_fields in H.
  destruct (from_fields hook m attrs (GStruct fs1, [])) as [[g1 d1]|], (from_fields hook m attrs (GStruct fs2, [])) as [[g2 d2]|].
  - destruct H as (Hd & a & b & _ & _ & _ & _ & HL).
    + intros k. now rewrite H1, H2.
    + intros k Hk. apply shaped_written; [exact HS|]. now apply H1.
    + split; [exact Hd|exact HL].
  - apply H; [intros k; now rewrite H1, H2|intros k Hk; apply shaped_written; [exact HS|now apply H1]].
  - apply H; [intros k; now rewrite H1, H2|intros k Hk; apply shaped_written; [exact HS|now apply H1]].
  - exact I.
Qed.

(* the class contains the class of the totality theorem (flat_ok) without custom types at the top *)
Definition no_custom_top (m : message) : bool :=
  forallb (fun f => negb (kind_eqb (fi_kind (f_info f)) CustomKind)) (m_fields m).

Lemma flat_ok_pi_ok m :
  flat_ok m = true -> no_custom_top m = true -> nodup_b (go_keys (m_fields m) (m_oneofs m)) = true ->
  pi_ok m = true.
Proof.
  destruct m as [n fs os inj e z]. rewrite flat_ok_forallb. unfold no_custom_top, pi_ok. cbn [m_fields m_oneofs].
  intros HF HC HN. rewrite HN, andb_true_r. rewrite forallb_forall in *. intros f Hf.
  specialize (HF f Hf). specialize (HC f Hf). destruct f as [i om]. cbn [fflat_ok f_info] in *.
  apply andb_prop in HF. destruct HF as [HF _]. destruct (info_ok_inv _ _ HF) as (V & P & _).
  unfold pi_field_ok. cbn [f_info]. rewrite V, P, HC. apply orb_true_r.
Qed.

Corollary copy_from_prior_independent_flat_partial hook m t p1 p2 :
  flat_ok m = true -> no_custom_top m = true -> nodup_b (go_keys (m_fields m) (m_oneofs m)) = true ->
  tf_shaped m t = true -> prior_ok m p1 -> prior_ok m p2 -> same_layout p1 p2 ->
  copy_from hook m t p1 = copy_from hook m t p2.
Proof. intros HF HC HN. apply copy_from_prior_independent_partial. now apply flat_ok_pi_ok. Qed.

(* ------------------------------------------------------------------------------------- *)
(* 7. the message-level reset *)

(* the zero message: every scalar zero, every pointer and oneof holder nil, every message held by
   value zero recursively.  A slice and a map are EMPTY, not nil: the emitted code assigns
   make([]T, len(v.Elems)) / make(map[string]T, len(v.Elems)) for a null or unknown value too. *)
Fixpoint is_zero_msg (m : message) (g : goval) {struct m} : Prop :=
  match m with
  | Msg _ fs os _ _ _ =>
      exists gs, g = GStruct gs /\
                 (forall h, In h os -> lookup h gs = Some (GOneof None)) /\
                 (fix go (l : list field) : Prop :=
                    match l with
                    | [] => True
                    | f :: r => is_zero_field f gs /\ go r
                    end) fs
  end
with is_zero_field (f : field) (gs : list (string * goval)) {struct f} : Prop :=
  match f with
  | Field i om =>
      if fi_placeholder i then True
      else match fi_oneof i with
           | Some h => lookup h gs = Some (GOneof None)
           | None =>
               exists v, lookup (fi_name i) gs = Some v /\
                         match fi_kind i with
                         | PrimitiveKind => v = zero_of_prim i
                         | PrimitiveListKind | ObjectListKind => v = GSlice (Some [])
                         | PrimitiveMapKind | ObjectMapKind => v = GMap (Some [])
                         | ObjectKind =>
                             match om with
                             | Some m' => if fi_nullable i then v = GPtr None else is_zero_msg m' v
                             | None => False
                             end
                         | CustomKind => False
                         end
           end
  end.

Lemma is_zero_msg_eq n fs os inj e z g :
  is_zero_msg (Msg n fs os inj e z) g <->
  exists gs, g = GStruct gs /\ (forall h, In h os -> lookup h gs = Some (GOneof None))
             /\ Forall (fun f => is_zero_field f gs) fs.
Proof.
  cbn [is_zero_msg]. split; intros (gs & E & HO & H); exists gs; (split; [exact E|]); (split; [exact HO|]); clear E HO.
  - induction fs as [|f r IH]; constructor; tauto.
  - induction H; tauto.
Qed.

(* the value the emitted code assigns for a null or unknown attribute *)
Definition reset_val (i : finfo) (om : option message) : goval :=
  match fi_kind i, om with
  | PrimitiveKind, _ => zero_of_prim i
  | PrimitiveListKind, _ | ObjectListKind, _ => GSlice (Some [])
  | PrimitiveMapKind, _ | ObjectMapKind, _ => GMap (Some [])
  | ObjectKind, Some m' => if fi_nullable i then GPtr None else m_zero m'
  | _, _ => GPtr None
  end.

Definition is_nullish (x : tfval) : bool :=
  match x with
  | VPrim _ n u _ | VList _ n u _ | VMap _ n u _ | VObj _ n u _ => n || u
  | _ => false
  end.

(* every attribute of the schema is present, with the constructor of its kind, and null or unknown *)
Definition attr_null (l : list (string * tfval)) (f : field) : bool :=
  fi_placeholder (f_info f)
  || match lookup (fi_snake (f_info f)) l with
     | Some x => shaped (f_info f) x && is_nullish x
     | None => false
     end.

Definition all_null (m : message) (t : tfval) : bool :=
  match t with
  | VObj _ _ _ at0 => forallb (attr_null (attrs_list at0)) (m_fields m)
  | _ => false
  end.

(* the class of the reset corollary, on the top-level fields (flat_ok and rt_more imply it, up to the
   absence of custom types): reached directly, no custom type, a oneof is listed by the message and
   its branches are scalars or messages, a message field carries its message *)
Definition reset_field_ok (os : list string) (f : field) : bool :=
  match fi_via (f_info f) with [] => true | _ => false end
  && match fi_parent (f_info f) with None => true | Some _ => false end
  && negb (kind_eqb (fi_kind (f_info f)) CustomKind)
  && match fi_oneof (f_info f) with
     | None => true
     | Some h => mem_str h os && match fi_kind (f_info f) with PrimitiveKind | ObjectKind => true | _ => false end
     end
  && match fi_kind (f_info f), f_msg f with ObjectKind, None => false | _, _ => true end.

Definition reset_ok (m : message) : bool :=
  forallb (reset_field_ok (m_oneofs m)) (m_fields m) && nodup_b (go_keys (m_fields m) (m_oneofs m)).

(* the zero value of a message held by value is the zero message (a well-formedness condition on the
   IR's m_zero; only the top-level fields are concerned) *)
Definition zeros_zero (m : message) : Prop :=
  forall i m', In (Field i (Some m')) (m_fields m) -> fi_placeholder i = false -> fi_oneof i = None ->
               fi_kind i = ObjectKind -> fi_nullable i = false -> is_zero_msg m' (m_zero m').

Lemma reset_field_ok_inv os f :
  reset_field_ok os f = true ->
  fi_via (f_info f) = [] /\ fi_parent (f_info f) = None /\ fi_kind (f_info f) <> CustomKind /\
  (forall h, fi_oneof (f_info f) = Some h ->
             In h os /\ (fi_kind (f_info f) = PrimitiveKind \/ fi_kind (f_info f) = ObjectKind)) /\
  (fi_kind (f_info f) = ObjectKind -> exists m', f_msg f = Some m').
Proof.
  unfold reset_field_ok. intros H.
  apply andb_prop in H. destruct H as [H H5]. apply andb_prop in H. destruct H as [H H4].
  apply andb_prop in H. destruct H as [H H3]. apply andb_prop in H. destruct H as [H1 H2].
  split; [destruct (fi_via (f_info f)); [reflexivity|discriminate]|].
  split; [destruct (fi_parent (f_info f)); [discriminate|reflexivity]|].
  split; [intros E; rewrite E in H3; discriminate|].
  split.
  - intros h E. rewrite E in H4. apply andb_prop in H4. destruct H4 as [H4 H6]. split; [now apply mem_str_In|].
    destruct (fi_kind (f_info f)); try discriminate H6; tauto.
  - intros E. rewrite E in H5. destruct (f_msg f); [eauto|discriminate].
Qed.

Lemma reset_ok_pi_ok m : reset_ok m = true -> pi_ok m = true.
Proof.
  unfold reset_ok, pi_ok. intros H. apply andb_prop in H. destruct H as [H ->]. rewrite andb_true_r.
  rewrite forallb_forall in *. intros f Hf. destruct (reset_field_ok_inv _ _ (H f Hf)) as (V & P & NC & _).
  unfold pi_field_ok. rewrite V, P. destruct (fi_kind (f_info f)); try congruence; apply orb_true_r.
Qed.

(* one field whose attribute is null or unknown *)
Lemma from_field_null hook i om l obj ds x :
  fi_via i = [] -> fi_parent i = None -> fi_kind i <> CustomKind ->
  (forall h, fi_oneof i = Some h -> fi_kind i = PrimitiveKind \/ fi_kind i = ObjectKind) ->
  (fi_kind i = ObjectKind -> exists m', om = Some m') ->
  lookup (fi_snake i) l = Some x -> shaped i x = true -> is_nullish x = true ->
  from_field hook (Field i om) (Some l) (obj, ds) =
  match fi_oneof i with
  | Some _ => Ok (obj, ds)
  | None => do o <- gset obj (fi_name i) (reset_val i om); Ok (o, ds)
  end.
Proof.
  intros V P NC HO HM EL HS HN. unfold shaped, reset_val in *. cbn [from_field]. fold (from_fields hook).
  rewrite V, P, EL. unfold alloc_parent. rewrite P. cbn [gset_via bind]. unfold as_prim, from_prim_value.
  assert (KN : forall n u, n || u = true -> known n u = false) by (intros [|] [|]; cbn; congruence).
  destruct (fi_kind i) eqn:EK; try congruence; destruct x; try discriminate HS; cbn [is_nullish] in HN;
    rewrite ?HS, ?(KN _ _ HN); cbn [bind].
  - destruct (fi_oneof i); reflexivity.
  - destruct (fi_oneof i) as [h|]; [destruct (HO h eq_refl); discriminate|]. reflexivity.
  - destruct (HM eq_refl) as [m' ->]. destruct (fi_oneof i); [reflexivity|].
    destruct (gset obj (fi_name i) (if fi_nullable i then GPtr None else m_zero m')); reflexivity.
  - destruct (fi_oneof i) as [h|]; [destruct (HO h eq_refl); discriminate|]. destruct om; reflexivity.
  - destruct (fi_oneof i) as [h|]; [destruct (HO h eq_refl); discriminate|]. reflexivity.
  - destruct (fi_oneof i) as [h|]; [destruct (HO h eq_refl); discriminate|]. destruct om; reflexivity.
Qed.

Lemma own_names_cons f r :
  own_names (f :: r) =
  (if fi_placeholder (f_info f) then []
   else match fi_oneof (f_info f) with None => [fi_name (f_info f)] | Some _ => [] end) ++ own_names r.
Proof. reflexivity. Qed.

Lemma from_field_list_null hook l os fs : forall a ds,
  forallb (reset_field_ok os) fs = true -> forallb (attr_null l) fs = true ->
  (forall k, In k (own_names fs) -> In k (keys a)) -> NoDup (own_names fs) ->
  exists a', from_field_list hook fs (Some l) (GStruct a, ds) = Ok (GStruct a', ds) /\ keys a' = keys a /\
             (forall k, ~ In k (own_names fs) -> lookup k a' = lookup k a) /\
             (forall f, In f fs -> fi_placeholder (f_info f) = false -> fi_oneof (f_info f) = None ->
                        lookup (fi_name (f_info f)) a' = Some (reset_val (f_info f) (f_msg f))).
Proof.
  induction fs as [|f r IH]; intros a ds HF HA HK HN; cbn [from_field_list].
  - exists a. split; [reflexivity|]. split; [reflexivity|]. split; [reflexivity|]. intros f [].
  - cbn [forallb] in HF, HA. apply andb_prop in HF. destruct HF as [Hf HF]. apply andb_prop in HA. destruct HA as [Ha HA].
    rewrite own_names_cons in HK, HN |- *.
    destruct (fi_placeholder (f_info f)) eqn:PH.
    { cbn [app] in *. destruct (IH a ds HF HA HK HN) as (a' & E & K & U & Z). exists a'.
      split; [exact E|]. split; [exact K|]. split; [exact U|].
      intros g [<-|Hg] PHg Og; [congruence|now apply Z]. }
    destruct (reset_field_ok_inv _ _ Hf) as (V & P & NC & HO & HM).
    unfold attr_null in Ha. rewrite PH in Ha. cbn [orb] in Ha.
    destruct (lookup (fi_snake (f_info f)) l) as [x|] eqn:EL; [|discriminate]. apply andb_prop in Ha. destruct Ha as [HS HX].
    destruct f as [i om]. cbn [f_info f_msg] in *.
    rewrite (from_field_null hook i om l (GStruct a) ds x V P NC (fun h E => proj2 (HO h E)) HM EL HS HX).
    destruct (fi_oneof i) as [h|] eqn:EO.
    { cbn [app bind] in *. destruct (IH a ds HF HA HK HN) as (a' & E & K & U & Z). exists a'.
      split; [exact E|]. split; [exact K|]. split; [exact U|].
      intros g [<-|Hg] PHg Og; [cbn [f_info] in Og; congruence|now apply Z]. }
    cbn [app] in HK, HN |- *. inversion HN as [|x0 l0 Hnot Hnd]; subst.
    rewrite gset_in by (apply HK; now left). cbn [bind].
    assert (K1 : keys (update (fi_name i) (reset_val i om) a) = keys a) by (apply keys_update_same, HK; now left).
    destruct (IH (update (fi_name i) (reset_val i om) a) ds HF HA) as (a' & E & K & U & Z); [|exact Hnd|].
    { intros k Hk. rewrite K1. apply HK. now right. }
    exists a'. split; [exact E|]. split; [congruence|]. split.
    + intros k Hk. rewrite U by (intros X; apply Hk; now right).
      apply lookup_update_neq. intros ->. apply Hk. now left.
    + intros g [<-|Hg] PHg Og; [|now apply Z]. cbn [f_info f_msg]. rewrite (U _ Hnot). apply lookup_update_eq.
Qed.

Lemma own_names_in' fs f :
  In f fs -> fi_placeholder (f_info f) = false -> fi_oneof (f_info f) = None -> In (fi_name (f_info f)) (own_names fs).
Proof.
  intros I PH O. unfold own_names. apply in_flat_map. exists f. split; [exact I|]. rewrite PH, O. now left.
Qed.

Lemma NoDup_app_inv {A} (l1 l2 : list A) :
  NoDup (l1 ++ l2) -> NoDup l1 /\ forall x, In x l1 -> ~ In x l2.
Proof.
  induction l1 as [|x r IH]; cbn [app]; intros H; [split; [constructor|intros x []]|].
  inversion H as [|y l Hnot Hnd]; subst. destruct (IH Hnd) as [H1 H2]. split.
  - constructor; [|exact H1]. intros X. apply Hnot, in_or_app. now left.
  - intros y [<-|Hy]; [|now apply H2]. intros X. apply Hnot, in_or_app. now right.
Qed.

(* the struct CopyFrom returns for an object whose attributes are all null or unknown *)
Lemma from_fields_all_null hook m l fs ds :
  reset_ok m = true -> forallb (attr_null l) (m_fields m) = true ->
  (forall k, In k (keys fs) <-> In k (go_keys (m_fields m) (m_oneofs m))) ->
  exists gs, from_fields hook m (Some l) (GStruct fs, ds) = Ok (GStruct gs, ds) /\
             keys gs = keys fs /\
             (forall h, In h (m_oneofs m) -> lookup h gs = Some (GOneof None)) /\
             (forall f, In f (m_fields m) -> fi_placeholder (f_info f) = false ->
                        match fi_oneof (f_info f) with
                        | Some h => lookup h gs = Some (GOneof None)
                        | None => lookup (fi_name (f_info f)) gs = Some (reset_val (f_info f) (f_msg f))
                        end).
Proof.
  destruct m as [n l0 os inj e z]. unfold reset_ok. cbn [m_fields m_oneofs]. intros HM HA HK.
  apply andb_prop in HM. destruct HM as [HF HN]. apply nodup_b_NoDup in HN. unfold go_keys in HN, HK.
  cbn [m_fields m_oneofs] in HK.
  destruct (NoDup_app_inv _ _ HN) as [HN1 HN2].
  assert (HF' := HF). rewrite forallb_forall in HF'.
  rewrite from_fields_unfold. cbn [fst snd].
  destruct (resets_ok l0 os fs) as (zs & Er & KR & NR).
  { intros h Hh. apply HK. apply in_or_app. now right. }
  { intros f Hf. destruct (reset_field_ok_inv _ _ (HF' f Hf)) as (_ & P & _ & HO & _). split; [exact P|].
    intros h E. apply (HO h E). }
  destruct (fold_res reset_oneof os (GStruct fs)) as [o1|]; cbn [bind] in Er |- *; [|discriminate].
  destruct (fold_res reset_promoted l0 o1) as [o2|]; cbn [bind] in Er |- *; [|discriminate].
  rewrite Er. cbn [bind].
  destruct (from_field_list_null hook l os l0 zs ds HF HA) as (gs & E & K & U & Z); [|exact HN1|].
  { intros k Hk. rewrite KR. apply HK. apply in_or_app. now left. }
  exists gs. split; [exact E|]. split; [congruence|].
  assert (HH : forall h, In h os -> lookup h gs = Some (GOneof None)).
  { intros h Hh. rewrite U; [now apply NR|]. intros X. exact (HN2 h X Hh). }
  split; [exact HH|].
  intros f Hf PH. destruct (fi_oneof (f_info f)) as [h|] eqn:EO; [|now apply Z].
  apply HH. destruct (reset_field_ok_inv _ _ (HF' f Hf)) as (_ & _ & _ & HO & _). apply (HO h EO).
Qed.

(* C05 at the level of the message: an object whose attributes are all null or unknown resets the
   target to the zero message, whatever the target held before, without diagnostics *)
Corollary copy_from_all_null_resets_partial hook m t p :
  reset_ok m = true -> zeros_zero m -> all_null m t = true -> prior_keys m p ->
  exists g, copy_from hook m t p = Ok (g, []) /\ is_zero_msg m g.
Proof.
  intros HM HZ HA (fs & -> & HK). destruct t; try discriminate HA. cbn [copy_from all_null] in *.
  rewrite from_fields_attrs_list.
  destruct (from_fields_all_null hook m (attrs_list attrs) fs [] HM HA HK) as (gs & E & _ & HH & HV).
  exists (GStruct gs). split; [exact E|].
  unfold reset_ok in HM. apply andb_prop in HM. destruct HM as [HF _]. rewrite forallb_forall in HF.
  destruct m as [n l0 os inj e z]. cbn [m_fields m_oneofs] in *. rewrite is_zero_msg_eq.
  exists gs. split; [reflexivity|]. split; [exact HH|].
  apply Forall_forall. intros [i om] Hf. cbn [is_zero_field].
  destruct (fi_placeholder i) eqn:PH; [exact I|].
  pose proof (HV _ Hf PH) as Hv. cbn [f_info f_msg] in Hv.
  destruct (fi_oneof i) as [h|] eqn:EO; [exact Hv|].
  exists (reset_val i om). split; [exact Hv|].
  destruct (reset_field_ok_inv _ _ (HF _ Hf)) as (_ & _ & NC & _ & HO). cbn [f_info f_msg] in NC, HO.
  unfold reset_val. destruct (fi_kind i) eqn:EK; try reflexivity; try congruence.
  destruct (HO eq_refl) as [m' ->]. destruct (fi_nullable i) eqn:EN; [reflexivity|].
  now apply (HZ i m' Hf PH EO EK EN).
Qed.

(* ------------------------------------------------------------------------------------- *)
(* 8. the class of the round trip theorem (rt_ok, MsgRoundTrip.v) is in the two classes, when the
   oneof holders are pairwise distinct *)

Lemma NoDup_nodup_b l : NoDup l -> nodup_b l = true.
Proof.
  induction 1 as [|x r Hnot Hnd IH]; cbn [nodup_b]; [reflexivity|]. rewrite IH, andb_true_r.
  destruct (existsb (String.eqb x) r) eqn:E; [|reflexivity].
  apply existsb_exists in E. destruct E as (y & Hy & E). apply String.eqb_eq in E. subst y. contradiction.
Qed.

Lemma NoDup_own_names fs : NoDup (map (fun f => fi_name (f_info f)) fs) -> NoDup (own_names fs).
Proof.
  induction fs as [|f r IH]; cbn [map]; intros H; [constructor|]. inversion H as [|x l Hnot Hnd]; subst.
  rewrite own_names_cons. destruct (fi_placeholder (f_info f)); [now apply IH|].
  destruct (fi_oneof (f_info f)); [now apply IH|]. cbn [app]. constructor; [|now apply IH].
  intros X. apply Hnot. unfold own_names in X. apply in_flat_map in X. destruct X as (g & Hg & X).
  apply in_map_iff. exists g. split; [|exact Hg].
  destruct (fi_placeholder (f_info g)); [destruct X|]. destruct (fi_oneof (f_info g)); [destruct X|].
  destruct X as [X|[]]. exact X.
Qed.

Lemma NoDup_app_intro {A} (l1 l2 : list A) :
  NoDup l1 -> NoDup l2 -> (forall x, In x l1 -> ~ In x l2) -> NoDup (l1 ++ l2).
Proof.
  induction 1 as [|x r Hnot Hnd IH]; intros H2 HD; cbn [app]; [exact H2|]. constructor.
  - intros X. apply in_app_or in X. destruct X as [X|X]; [contradiction|]. apply (HD x); [now left|exact X].
  - apply IH; [exact H2|]. intros y Hy. apply HD. now right.
Qed.

Lemma rt_ok_reset_ok m : rt_ok m = true -> nodup_b (m_oneofs m) = true -> reset_ok m = true.
Proof.
  destruct m as [n fs os inj e z]. unfold rt_ok, reset_ok. cbn [m_fields m_oneofs]. intros H HO.
  apply andb_prop in H. destruct H as [H R]. apply andb_prop in H. destruct H as [T _].
  rewrite tf_ok_eq in T. rewrite rt_more_eq in R.
  apply andb_prop in T. destruct T as [_ T3].
  apply andb_prop in R. destruct R as [R R4]. apply andb_prop in R. destruct R as [R _].
  apply andb_prop in R. destruct R as [R1 _]. apply nodup_b_NoDup in R1. apply nodup_b_NoDup in HO.
  rewrite forallb_forall in T3, R4. apply andb_true_intro. split.
  - apply forallb_forall. intros [i om] Hf. pose proof (T3 _ Hf) as Tf. pose proof (R4 _ Hf) as Rf.
    cbn [ftf_ok frt_more] in Tf, Rf. apply andb_prop in Tf. destruct Tf as [Tf _]. apply andb_prop in Rf. destruct Rf as [Rf _].
    destruct (finfo_ok_inv _ _ Tf) as (V & P & NC & _ & OM & OO & _).
    unfold rt_info_ok in Rf. apply andb_prop in Rf. destruct Rf as [_ Rf].
    unfold reset_field_ok. cbn [f_info f_msg]. rewrite V, P.
    assert (E1 : negb (kind_eqb (fi_kind i) CustomKind) = true) by (destruct (fi_kind i); try reflexivity; congruence).
    rewrite E1. cbn [andb]. apply andb_true_intro. split.
    + destruct (fi_oneof i) as [h|]; [|reflexivity]. apply andb_prop in Rf. destruct Rf as [Rf _]. rewrite Rf.
      destruct (OO h eq_refl) as [[-> _]|[-> _]]; reflexivity.
    + destruct (fi_kind i) eqn:EK; try reflexivity. destruct (OM eq_refl) as [m' ->]. reflexivity.
  - apply NoDup_nodup_b. unfold go_keys. apply NoDup_app_intro; [now apply NoDup_own_names|exact HO|].
    intros k Hk Hk'. unfold own_names in Hk. apply in_flat_map in Hk. destruct Hk as ([i om] & Hf & Hk). cbn [f_info] in Hk.
    destruct (fi_placeholder i); [destruct Hk|]. destruct (fi_oneof i) eqn:EO; [destruct Hk|]. destruct Hk as [<-|[]].
    pose proof (R4 _ Hf) as Rf. cbn [frt_more] in Rf. apply andb_prop in Rf. destruct Rf as [Rf _].
    unfold rt_info_ok in Rf. apply andb_prop in Rf. destruct Rf as [_ Rf]. rewrite EO in Rf.
    apply mem_str_In in Hk'. rewrite Hk' in Rf. discriminate.
Qed.

Corollary copy_from_prior_independent_rt_partial hook m t p1 p2 :
  rt_ok m = true -> nodup_b (m_oneofs m) = true ->
  tf_shaped m t = true -> prior_ok m p1 -> prior_ok m p2 -> same_layout p1 p2 ->
  copy_from hook m t p1 = copy_from hook m t p2.
Proof. intros HR HO. apply copy_from_prior_independent_partial, reset_ok_pi_ok. now apply rt_ok_reset_ok. Qed.

Corollary copy_from_all_null_resets_rt_partial hook m t p :
  rt_ok m = true -> nodup_b (m_oneofs m) = true -> zeros_zero m -> all_null m t = true -> prior_keys m p ->
  exists g, copy_from hook m t p = Ok (g, []) /\ is_zero_msg m g.
Proof. intros HR HO. apply copy_from_all_null_resets_partial. now apply rt_ok_reset_ok. Qed.

(* ------------------------------------------------------------------------------------- *)
(* 9. the hypotheses are satisfiable, and they are needed *)

Module PriorExample.
  Import RTExample.
  Local Open Scope string_scope.
  Local Open Scope Z_scope.

  (* RTExample.outer with a nullable message "Q" added: a oneof with a scalar and a message branch,
     a second oneof, a list and a map of messages, a map and a list of scalars, a message by value,
     a nullable message, a pointer scalar, a float32, a message without fields, a time *)
  Definition outer2 : message :=
    Msg "Outer"
        [Field (mk "X" "x" PrimitiveKind KI64 GsInt32 false true (Some "Kind")) None;
         Field (mk "Y" "y" ObjectKind KI64 GsInt64 true false (Some "Kind")) (Some inner);
         Field (mk "Items" "items" ObjectListKind KI64 GsInt64 true false None) (Some inner);
         Field (mk "Labels" "labels" PrimitiveMapKind KStr GsString false false None) None;
         Field (mk "Tags" "tags" PrimitiveListKind KStr GsBytes false true None) None;
         Field (mk "Sub" "sub" ObjectKind KI64 GsInt64 false false None) (Some inner);
         Field (mk "Q" "q" ObjectKind KI64 GsInt64 true false None) (Some inner);
         Field (mk "P" "p" PrimitiveKind KBool GsBool true false None) None;
         Field (mk "N" "n" PrimitiveKind KF64 GsFloat32 false true None) None;
         Field (mk "E" "e" ObjectKind KI64 GsInt64 true false None) (Some empty);
         Field (mk "T" "t" PrimitiveKind KTime GsTime false false None) None;
         Field (mk "M" "m" ObjectMapKind KI64 GsInt64 false false None) (Some inner);
         Field (mk "Z" "z" PrimitiveKind KI64 GsInt64 false true (Some "Other")) None]
        ["Kind"; "Other"] [] false
        (GStruct [("Items", GSlice None); ("Labels", GMap None); ("Tags", GSlice None);
                  ("Sub", GStruct [("A", GPrim (PStr "")); ("U", GPrim (PInt 0))]);
                  ("Q", GPtr None);
                  ("P", GPtr None); ("N", GPrim (PF32 (S754_zero false))); ("E", GPtr None);
                  ("T", GPrim (PTime (-62135596800) 0 0)); ("M", GMap None);
                  ("Kind", GOneof None); ("Other", GOneof None)]).

  (* the zero struct *)
  Definition p_zero : goval := m_zero outer2.
  (* a struct full of other content: longer list, other map keys, non-nil pointers, holders set *)
  Definition p_full : goval :=
    GStruct [("Items", GSlice (Some [GPtr (Some (inn "zz" 7)); GPtr None; GPtr (Some (inn "q" 1)); GPtr None; GPtr None]));
             ("Labels", GMap (Some [("other", GPrim (PStr "x")); ("b", GPrim (PStr "old"))]));
             ("Tags", GSlice (Some [GBytes (Some "old")]));
             ("Sub", inn "s" 99);
             ("Q", GPtr (Some (inn "qq" 5)));
             ("P", GPtr (Some (GPrim (PBool true))));
             ("N", GPrim (PF32 (S754_zero true)));
             ("E", GPtr (Some (GStruct [])));
             ("T", GPrim (PTime 5 6 7));
             ("M", GMap (Some [("k9", inn "m" 3)]));
             ("Kind", GOneof (Some ("X", GPrim (PInt 5))));
             ("Other", GOneof (Some ("Z", GPrim (PInt 9))))].
  (* the keys in another order, ill-typed content *)
  Definition p_perm : goval :=
    GStruct [("Kind", GOneof (Some ("Y", GPtr None))); ("Other", GPtr None);
             ("M", GPrim (PInt 1)); ("T", GPtr None); ("E", GPtr None); ("N", GPtr None); ("P", GPtr None);
             ("Q", GPtr (Some (GPtr None))); ("Sub", GPtr None); ("Tags", GMap None); ("Labels", GSlice None);
             ("Items", GSlice (Some [GPrim (PInt 1)]))].

  Definition ty := msg_ty outer2.
  Definition ity := msg_ty inner.

  Definition nulls (n u : bool) : list (string * tfval) :=
    [("x", VPrim KI64 n u (PInt 0)); ("y", VObj ity n u None);
     ("items", VList (TyObj ity) n u None); ("labels", VMap (TyPrim KStr) n u None);
     ("tags", VList (TyPrim KStr) n u None); ("sub", VObj ity n u None); ("q", VObj ity n u None);
     ("p", VPrim KBool n u (PBool false)); ("n", VPrim KF64 n u (PF64 (S754_zero false)));
     ("e", VObj [] n u None); ("t", VPrim KTime n u (PTime 0 0 0)); ("m", VMap (TyObj ity) n u None);
     ("z", VPrim KI64 n u (PInt 0))].
  Definition t_null := VObj ty false false (Some (nulls true false)).
  Definition t_unknown := VObj ty false false (Some (nulls false true)).
  (* the object itself null: no attribute *)
  Definition t_nullobj := VObj ty true false None.
  Definition iobj (a : string) (u : Z) : tfval :=
    VObj ity false false (Some [("a", VPrim KStr false false (PStr a)); ("u", VPrim KI64 false false (PInt u))]).
  (* a nested object with a missing attribute *)
  Definition iobj_missing (a : string) : tfval :=
    VObj ity false false (Some [("a", VPrim KStr false false (PStr a))]).
  Definition knowns : list (string * tfval) :=
    [("x", VPrim KI64 false false (PInt 3)); ("y", iobj "y" 2);
     ("items", VList (TyObj ity) false false (Some [iobj "i1" 1; VObj ity true false None; iobj "i3" 3]));
     ("labels", VMap (TyPrim KStr) false false (Some [("l1", VPrim KStr false false (PStr "v1")); ("l2", VPrim KStr true false (PStr ""))]));
     ("tags", VList (TyPrim KStr) false false (Some [VPrim KStr false false (PStr "t1"); VPrim KStr false true (PStr "")]));
     ("sub", iobj "sub" 4); ("q", iobj_missing "q");
     ("p", VPrim KBool false false (PBool true)); ("n", VPrim KF64 false false (PF64 (S754_zero true)));
     ("e", VObj [] false false (Some [])); ("t", VPrim KTime false false (PTime 1 2 3));
     ("m", VMap (TyObj ity) false false (Some [("m1", iobj "m1" 6); ("m2", iobj_missing "m2")]));
     ("z", VPrim KI64 true false (PInt 0))].
  Definition t_known := VObj ty false false (Some knowns).
  (* the branches of the oneofs missing, ill-typed elements: still in the hypothesis *)
  Definition t_known' :=
    VObj ty false false
         (Some (update "tags" (VList (TyPrim KStr) false false (Some [VNil; VPrim KI64 false false (PInt 1)]))
                       (remove "y" (remove "z" knowns)))).
  (* top-level attributes missing / of the wrong kind: outside of the hypothesis *)
  Definition t_missing := VObj ty false false (Some (remove "sub" (remove "labels" knowns))).
  Definition t_wrong := VObj ty false false (Some (update "items" (VPrim KStr false false (PStr "")) knowns)).

  Example class_ok : rt_ok outer2 = true /\ pi_ok outer2 = true /\ reset_ok outer2 = true
                     /\ flat_ok outer2 = true /\ no_custom_top outer2 = true.
  Proof. repeat split; vm_compute; reflexivity. Qed.

  Example priors_ok :
    prior_ok outer2 p_zero /\ prior_ok outer2 p_full /\ same_layout p_zero p_full /\ prior_keys outer2 p_perm.
  Proof.
    split; [apply prior_decl_ok; vm_compute; reflexivity|].
    split; [apply prior_decl_ok; vm_compute; reflexivity|].
    split; [vm_compute; reflexivity|].
    eexists. split; [reflexivity|]. intros k. vm_compute. tauto.
  Qed.

  Example inputs_shaped :
    tf_shaped outer2 t_null = true /\ tf_shaped outer2 t_unknown = true /\ tf_shaped outer2 t_known = true
    /\ tf_shaped outer2 t_known' = true
    /\ tf_shaped outer2 t_missing = false /\ tf_shaped outer2 t_wrong = false /\ tf_shaped outer2 t_nullobj = false.
  Proof. repeat split; vm_compute; reflexivity. Qed.

  (* the theorem on these inputs, for any hook *)
  Example independent hook t :
    In t [t_null; t_unknown; t_known; t_known'] ->
    copy_from hook outer2 t p_zero = copy_from hook outer2 t p_full.
  Proof.
    destruct priors_ok as (H1 & H2 & H3 & _). destruct class_ok as (_ & HC & _).
    intros [<-|[<-|[<-|[<-|[]]]]]; apply copy_from_prior_independent_partial; auto; vm_compute; reflexivity.
  Qed.

  (* ... and computed: diagnostics for the nested missing attributes appear on both sides *)
  Example independent_computed :
    copy_from std_hook_from outer2 t_known p_zero = copy_from std_hook_from outer2 t_known p_full
    /\ exists g, copy_from std_hook_from outer2 t_known p_full = Ok (g, [(ReadMissing, "u")]).
  Proof. split; [vm_compute; reflexivity|eexists; vm_compute; reflexivity]. Qed.

  (* the hypothesis on the object is needed: with a top-level attribute missing, or of another kind,
     the field keeps its prior content (and a diagnostic is returned) *)
  Example missing_keeps_prior :
    (do r <- copy_from std_hook_from outer2 t_missing p_full; gfield (fst r) "Sub") = Ok (inn "s" 99)
    /\ (do r <- copy_from std_hook_from outer2 t_missing p_zero; gfield (fst r) "Sub") = Ok (inn "" 0)
    /\ copy_from std_hook_from outer2 t_missing p_zero <> copy_from std_hook_from outer2 t_missing p_full.
  Proof. split; [vm_compute; reflexivity|]. split; [vm_compute; reflexivity|]. vm_compute. discriminate. Qed.

  Example wrong_kind_keeps_prior :
    copy_from std_hook_from outer2 t_wrong p_zero <> copy_from std_hook_from outer2 t_wrong p_full.
  Proof. vm_compute. discriminate. Qed.

  (* an object which is itself null carries no attribute: CopyFrom does not look at its null flag,
     reports every attribute as missing and resets the oneof holders only *)
  Example null_object_keeps_prior :
    copy_from std_hook_from outer2 t_nullobj p_zero <> copy_from std_hook_from outer2 t_nullobj p_full
    /\ (do r <- copy_from std_hook_from outer2 t_nullobj p_full; gfield (fst r) "Q") = Ok (GPtr (Some (inn "qq" 5)))
    /\ (do r <- copy_from std_hook_from outer2 t_nullobj p_full; gfield (fst r) "Kind") = Ok (GOneof None).
  Proof. split; [vm_compute; discriminate|]. split; vm_compute; reflexivity. Qed.

  (* the order of the keys is the prior's: syntactic equality needs the same order *)
  Example order_matters :
    copy_from std_hook_from outer2 t_null p_zero <> copy_from std_hook_from outer2 t_null p_perm.
  Proof. vm_compute. discriminate. Qed.

  Example independent_lookup hook :
    match copy_from hook outer2 t_known p_zero, copy_from hook outer2 t_known p_perm with
    | Panic, Panic => True
    | Ok (g1, d1), Ok (g2, d2) => d1 = d2 /\ forall k, gfield g1 k = gfield g2 k
    | _, _ => False
    end.
  Proof.
    destruct priors_ok as (H1 & _ & _ & H3). apply copy_from_prior_independent_lookup_partial.
    - vm_compute. reflexivity.
    - vm_compute. reflexivity.
    - now apply prior_ok_keys.
    - exact H3.
  Qed.

  (* the reset corollary *)
  Lemma outer2_zeros : zeros_zero outer2.
  Proof.
    intros i m' Hf PH EO EK EN. cbn [outer2 m_fields] in Hf.
    repeat (destruct Hf as [Hf|Hf];
            [try discriminate Hf; injection Hf as <- <-; try discriminate EK; try discriminate EN; try discriminate EO|]);
      try (destruct Hf).
    unfold inner. rewrite is_zero_msg_eq. eexists. split; [reflexivity|]. split; [intros h []|].
    repeat constructor; cbn; eexists; split; reflexivity.
  Qed.

  Example all_null_ok : all_null outer2 t_null = true /\ all_null outer2 t_unknown = true
                        /\ all_null outer2 t_known = false /\ all_null outer2 t_nullobj = false.
  Proof. repeat split; vm_compute; reflexivity. Qed.

  Example resets hook t :
    In t [t_null; t_unknown] ->
    exists g, copy_from hook outer2 t p_full = Ok (g, []) /\ is_zero_msg outer2 g.
  Proof.
    destruct priors_ok as (_ & H2 & _). destruct class_ok as (_ & _ & HC & _). apply prior_ok_keys in H2.
    intros [<-|[<-|[]]]; apply copy_from_all_null_resets_partial; auto using outer2_zeros; vm_compute; reflexivity.
  Qed.

  (* computed: the slices and maps are empty, not nil *)
  Example resets_computed :
    copy_from std_hook_from outer2 t_unknown p_full =
    Ok (GStruct [("Items", GSlice (Some [])); ("Labels", GMap (Some [])); ("Tags", GSlice (Some []));
                 ("Sub", inn "" 0); ("Q", GPtr None); ("P", GPtr None); ("N", GPrim (PF32 (S754_zero false)));
                 ("E", GPtr None); ("T", GPrim (PTime (-62135596800) 0 0)); ("M", GMap (Some []));
                 ("Kind", GOneof None); ("Other", GOneof None)], []).
  Proof. vm_compute. reflexivity. Qed.

  (* the class contains what the model of the generator builds (GenExample of MsgRoundTrip.v) *)
  Example built_in_class :
    exists m, Build.build_message (Build.obs_of GenExample.cfg)
                                  [GenExample.d_inner; GenExample.d_empty; GenExample.d_emb; GenExample.d_outer] 5
                                  GenExample.d_outer "Outer" = Build.BOk m
              /\ reset_ok m = true /\ pi_ok m = true /\ prior_keys m (m_zero m)
              /\ (* the fields are sorted, the zero struct is not: *)
                 (forall fs, m_zero m = GStruct fs -> keys fs <> go_keys (m_fields m) (m_oneofs m)).
  Proof.
    eexists. split; [vm_compute; reflexivity|]. split; [vm_compute; reflexivity|]. split; [vm_compute; reflexivity|].
    split.
    - eexists. split; [vm_compute; reflexivity|]. intros k. vm_compute. tauto.
    - intros fs. vm_compute. intros [= <-]. discriminate.
  Qed.
End PriorExample.

Print Assumptions from_fields_prior_independent.
Print Assumptions from_fields_prior_independent_lookup.
Print Assumptions copy_from_prior_independent_partial.
Print Assumptions copy_from_prior_independent_lookup_partial.
Print Assumptions copy_from_prior_independent_flat_partial.
Print Assumptions copy_from_prior_independent_rt_partial.
Print Assumptions copy_from_all_null_resets_partial.
Print Assumptions copy_from_all_null_resets_rt_partial.
