(* [text layer] Agreement between the tables regenerated from the Go sources on every run (Generated/Src.v, written by
   `vh translate`) and the hand-written model. Every statement is closed by computation over a finite
   domain (the fifteen proto scalar types, the nine command-line options, the configuration keys), so a
   change of a row in the source breaks the proof at once. *)
From Coq Require Import List String Ascii Bool NArith.
From PGT Require Import Base.Strs Base.AList Model.Vals Model.Desc Model.Build Model.GoTypes.
From PGT Require Import Proofs.CopyToTotal.
From PGT Require Import Generated.Src.
Import ListNotations.
Open Scope string_scope.

(* ---- 4. imports.go and main.go ------------------------------------------------------------------- *)

Theorem src_builtin_types_agree : src_builtin_types = builtin_types.
Proof. reflexivity. Qed.

Theorem src_constants_agree :
  lookup "paramDelimiter" src_consts = Some "+" /\
  lookup "packageReplacementRegexp" src_consts = Some (pkg_kw ++ "(.+)" ++ nl) /\
  lookup "Types" src_consts = Some "github.com/hashicorp/terraform-plugin-framework/types" /\
  lookup "SDK" src_consts = Some "github.com/hashicorp/terraform-plugin-framework/tfsdk" /\
  lookup "Diag" src_consts = Some "github.com/hashicorp/terraform-plugin-framework/diag" /\
  lookup "Attr" src_consts = Some "github.com/hashicorp/terraform-plugin-framework/attr" /\
  lookup "TFTypes" src_consts = Some "github.com/hashicorp/terraform-plugin-go/tftypes".
Proof. vm_compute. repeat split; reflexivity. Qed.
