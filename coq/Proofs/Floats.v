(* float32 -> float64 -> float32 is the identity on every non-NaN binary32 value.

   Model/Vals.v models Go floats with the standard library's [spec_float] and the conversions
   float64(x) / float32(v) with [SpecFloat.binary_normalize].  The proof goes through Flocq:
   (1) the SpecFloat functions agree with Flocq's [BinarySingleNaN] ones (generic in prec/emax,
       same proofs as in Flocq's IEEE754/PrimFloat.v which states them for binary64 only);
   (2) [binary_normalize_correct]: normalizing a real that is already in the target format and
       below the overflow threshold returns that real, finite, with the same sign;
   (3) every binary32 real is a binary64 real ([generic_inclusion_mag]);
   (4) [B2R_Bsign_inj]: a finite float is determined by its real value and its sign. *)
From Coq Require Import ZArith Reals Lia Floats.SpecFloat.
From Flocq Require Import Core.Core Core.Zaux IEEE754.BinarySingleNaN.
From PGT Require Import Model.Vals.

Local Open Scope Z_scope.

(* ------------------------------------------------------------------------------------- *)
(* (1) SpecFloat.binary_normalize is Flocq's binary_normalize in mode NE *)

Section Equiv.
Variable prec emax : Z.
Context (Hprec : FLX.Prec_gt_0 prec).
Context (Hmax : Prec_lt_emax prec emax).

Lemma round_nearest_even_equiv s m l :
  SpecFloat.round_nearest_even m l = choice_mode mode_NE s m l.
Proof.
case l; [reflexivity|intro c].
case c; [ | reflexivity..].
now simpl; unfold Round.cond_incr; case Z.even.
Qed.

Lemma binary_round_aux_equiv sx mx ex lx :
  SpecFloat.binary_round_aux prec emax sx mx ex lx
  = BinarySingleNaN.binary_round_aux prec emax mode_NE sx mx ex lx.
Proof.
unfold SpecFloat.binary_round_aux, BinarySingleNaN.binary_round_aux.
set (mrse' := shr_fexp _ _ _ _ _).
case mrse'; intros mrs' e'; simpl.
now rewrite (round_nearest_even_equiv sx).
Qed.

Lemma binary_round_equiv s m e :
  SpecFloat.binary_round prec emax s m e =
  BinarySingleNaN.binary_round prec emax mode_NE s m e.
Proof.
unfold SpecFloat.binary_round, BinarySingleNaN.binary_round, shl_align_fexp.
set (mez := shl_align _ _ _); case mez as [mz ez].
apply binary_round_aux_equiv.
Qed.

Lemma binary_normalize_equiv m e szero :
  SpecFloat.binary_normalize prec emax m e szero
  = B2SF (BinarySingleNaN.binary_normalize prec emax Hprec Hmax mode_NE m e szero).
Proof.
case m as [ | p | p].
- now simpl.
- simpl; rewrite B2SF_SF2B; apply binary_round_equiv.
- simpl; rewrite B2SF_SF2B; apply binary_round_equiv.
Qed.

(* (2) normalizing a representable, non overflowing value is exact *)
Lemma normalize_exact s m e :
  let r := F2R (Float radix2 (cond_Zopp s (Zpos m)) e) in
  let z := BinarySingleNaN.binary_normalize prec emax Hprec Hmax mode_NE (cond_Zopp s (Zpos m)) e s in
  generic_format radix2 (SpecFloat.fexp prec emax) r ->
  (Rabs r < bpow radix2 emax)%R ->
  B2R z = r /\ is_finite z = true /\ Bsign z = s.
Proof.
  intros r z G L.
  pose proof (binary_normalize_correct prec emax Hprec Hmax mode_NE (cond_Zopp s (Zpos m)) e s) as C.
  cbv zeta in C. fold r in C. fold z in C.
  assert (R : round radix2 (SpecFloat.fexp prec emax) (round_mode mode_NE) r = r)
    by (apply round_generic; [apply valid_rnd_round_mode | exact G]).
  rewrite R in C. rewrite (Rlt_bool_true _ _ L) in C. destruct C as (C1 & C2 & C3).
  split; [exact C1|]. split; [exact C2|].
  rewrite C3. unfold r. destruct s; cbn [cond_Zopp].
  - rewrite Rcompare_Lt; [reflexivity|]. apply F2R_lt_0. reflexivity.
  - rewrite Rcompare_Gt; [reflexivity|]. apply F2R_gt_0. reflexivity.
Qed.

End Equiv.

(* ------------------------------------------------------------------------------------- *)
(* binary32 and binary64 *)

Notation fexp32 := (SpecFloat.fexp 24 128).
Notation fexp64 := (SpecFloat.fexp 53 1024).

Local Instance Hprec32 : FLX.Prec_gt_0 24 := eq_refl.
Local Instance Hmax32 : Prec_lt_emax 24 128 := eq_refl.
Local Instance Hprec64 : FLX.Prec_gt_0 53 := eq_refl.
Local Instance Hmax64 : Prec_lt_emax 53 1024 := eq_refl.

(* (3) *)
Lemma format32_in_64 x : generic_format radix2 fexp32 x -> generic_format radix2 fexp64 x.
Proof.
  intros H. destruct (Req_dec x 0) as [->|Hx]; [apply generic_format_0|].
  apply (generic_inclusion_mag radix2 fexp32 fexp64); [|exact H].
  intros _. unfold SpecFloat.fexp, SpecFloat.emin. lia.
Qed.

Lemma cond_Zopp_if (s : bool) (m : positive) :
  (if s then Zneg m else Zpos m) = cond_Zopp s (Zpos m).
Proof. destruct s; reflexivity. Qed.

Lemma widen_finite s m e :
  widen (S754_finite s m e)
  = B2SF (BinarySingleNaN.binary_normalize 53 1024 Hprec64 Hmax64 mode_NE (cond_Zopp s (Zpos m)) e s).
Proof.
  unfold widen, sf_convert. rewrite cond_Zopp_if. apply binary_normalize_equiv.
Qed.

Lemma narrow_finite s m e :
  narrow (S754_finite s m e)
  = B2SF (BinarySingleNaN.binary_normalize 24 128 Hprec32 Hmax32 mode_NE (cond_Zopp s (Zpos m)) e s).
Proof.
  unfold narrow, sf_convert. rewrite cond_Zopp_if. apply binary_normalize_equiv.
Qed.

(* float64(x) of a finite nonzero binary32 x: a finite binary64 with the same real value and
   the same sign *)
Lemma widen_correct s m e (Hb : SpecFloat.bounded 24 128 m e = true) :
  let b : binary_float 24 128 := B754_finite s m e Hb in
  let z := BinarySingleNaN.binary_normalize 53 1024 Hprec64 Hmax64 mode_NE (cond_Zopp s (Zpos m)) e s in
  B2R z = B2R b /\ is_finite z = true /\ Bsign z = s.
Proof.
  intros b z.
  apply (normalize_exact 53 1024 Hprec64 Hmax64 s m e).
  - apply format32_in_64. apply (generic_format_B2R 24 128 b).
  - eapply Rlt_trans; [apply (abs_B2R_lt_emax 24 128 b)|]. apply bpow_lt; lia.
Qed.

Theorem narrow_widen (x : spec_float) :
  SpecFloat.valid_binary 24 128 x = true ->
  x <> S754_nan ->
  narrow (widen x) = x.
Proof.
  intros Hv Hn.
  destruct x as [s|s| |s m e]; [reflexivity | reflexivity | congruence |].
  cbn [SpecFloat.valid_binary] in Hv.
  set (b := B754_finite s m e Hv : binary_float 24 128).
  rewrite widen_finite.
  destruct (widen_correct s m e Hv) as (A & B & C). fold b in A.
  set (z := BinarySingleNaN.binary_normalize 53 1024 Hprec64 Hmax64 mode_NE (cond_Zopp s (Zpos m)) e s) in *.
  assert (Nz : B2R b <> 0%R).
  { unfold b; cbn [B2R]. destruct s; cbn [cond_Zopp].
    - apply Rlt_not_eq. apply F2R_lt_0. reflexivity.
    - apply Rgt_not_eq. apply F2R_gt_0. reflexivity. }
  destruct z as [s'|s'| |s' m' e' Hb']; cbn [is_finite] in B; try discriminate.
  - (* a zero: impossible, the value is not 0 *)
    cbn [B2R] in A. exfalso. apply Nz. symmetry. exact A.
  - cbn [B2SF]. rewrite narrow_finite.
    cbn [Bsign] in C. cbn [B2R] in A.
    destruct (normalize_exact 24 128 Hprec32 Hmax32 s' m' e') as (A' & B' & C').
    + rewrite A. apply (generic_format_B2R 24 128 b).
    + rewrite A. apply (abs_B2R_lt_emax 24 128 b).
    + set (z' := BinarySingleNaN.binary_normalize 24 128 Hprec32 Hmax32 mode_NE (cond_Zopp s' (Zpos m')) e' s') in *.
      assert (E : z' = b).
      { apply B2R_Bsign_inj; [exact B' | reflexivity | rewrite A'; exact A | rewrite C'; exact C]. }
      rewrite E. reflexivity.
Qed.

(* the generated code: float32 field -> types.Float64 payload -> float32 field *)
Theorem float32_round_trip (x : spec_float) :
  SpecFloat.valid_binary 24 128 x = true -> x <> S754_nan ->
  exists p, cast_to KF64 (GPrim (PF32 x)) = Ok p /\ cast_from GsFloat32 p = Ok (GPrim (PF32 x)).
Proof.
  intros Hv Hn. exists (PF64 (widen x)). split; [reflexivity|].
  cbn [cast_from]. rewrite (narrow_widen x Hv Hn). reflexivity.
Qed.

(* the payload float64(x) is a binary64 value *)
Theorem widen_valid (x : spec_float) :
  SpecFloat.valid_binary 24 128 x = true -> x <> S754_nan ->
  SpecFloat.valid_binary 53 1024 (widen x) = true.
Proof.
  intros Hv Hn.
  destruct x as [s|s| |s m e]; [reflexivity | reflexivity | congruence |].
  rewrite widen_finite. apply valid_binary_B2SF.
Qed.

(* smallest subnormal, largest finite, -0 *)
Example narrow_widen_min_subnormal : narrow (widen (sf32_of_bits 1)) = sf32_of_bits 1.
Proof. vm_compute. reflexivity. Qed.
Example narrow_widen_max_finite : narrow (widen (sf32_of_bits 2139095039)) = sf32_of_bits 2139095039.
Proof. vm_compute. reflexivity. Qed.
Example narrow_widen_neg_zero : narrow (widen (sf32_of_bits 2147483648)) = sf32_of_bits 2147483648.
Proof. vm_compute. reflexivity. Qed.

Print Assumptions narrow_widen.
Print Assumptions float32_round_trip.
