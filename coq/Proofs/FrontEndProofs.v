(* C12, C13, C14: the front end depends on the configuration only through lookups. *)
From Coq Require Import List String Ascii Bool Arith Lia.
From Coq Require Import Sorting.Permutation Logic.FunctionalExtensionality.
From PGT Require Import Base.Strs Base.AList Model.Vals Model.IR Model.Names Model.Desc Model.Build.
Import ListNotations.
Local Open Scope string_scope.

(* ------------------------------------------------------------------------------------- *)
(* 1. lookups do not see the order of entries *)

Lemma mem_str_perm x l l' : Permutation l l' -> mem_str x l = mem_str x l'.
Proof.
  induction 1; cbn.
  - reflexivity.
  - now rewrite IHPermutation.
  - now rewrite !orb_assoc, (orb_comm (str_eqb x y)).
  - congruence.
Qed.

Lemma lookup_perm {A} k (l l' : list (string * A)) :
  NoDup (map fst l) -> Permutation l l' -> lookup k l = lookup k l'.
Proof.
  intros ND P. induction P as [|[k1 v1] l l' P IH|[k1 v1] [k2 v2] l|l l' l'' P1 IH1 P2 IH2].
  - reflexivity.
  - cbn in *. inversion ND; subst. now rewrite IH.
  - cbn in *. inversion ND as [|? ? N1 _]; subst.
    destruct (String.eqb_spec k k1), (String.eqb_spec k k2); try reflexivity.
    subst. exfalso. apply N1. now left.
  - rewrite IH1 by assumption. apply IH2.
    eapply Permutation_NoDup; [|exact ND]. now apply Permutation_map.
Qed.

Lemma flag_perm l l' t p : Permutation l l' -> flag l t p = flag l' t p.
Proof. intros P. unfold flag. now rewrite !(mem_str_perm _ _ _ P). Qed.

Lemma by_keys_perm {A} (m m' : list (string * A)) t p :
  NoDup (map fst m) -> Permutation m m' -> by_keys m t p = by_keys m' t p.
Proof. intros ND P. unfold by_keys. now rewrite !(lookup_perm _ _ _ ND P). Qed.

(* ------------------------------------------------------------------------------------- *)
(* 2. C14: the same configuration up to the order of entries *)

Record cfg_perm (c1 c2 : config) : Prop := {
  cp_types : Permutation (c_types c1) (c_types c2);
  cp_exclude : Permutation (c_exclude c1) (c_exclude c2);
  cp_computed : Permutation (c_computed c1) (c_computed c2);
  cp_required : Permutation (c_required c1) (c_required c2);
  cp_sensitive : Permutation (c_sensitive c1) (c_sensitive c2);
  cp_suffixes : Permutation (c_suffixes c1) (c_suffixes c2) /\ NoDup (map fst (c_suffixes c1));
  cp_name_overrides :
    Permutation (c_name_overrides c1) (c_name_overrides c2) /\ NoDup (map fst (c_name_overrides c1));
  cp_validators : Permutation (c_validators c1) (c_validators c2) /\ NoDup (map fst (c_validators c1));
  cp_planmods : Permutation (c_planmods c1) (c_planmods c2) /\ NoDup (map fst (c_planmods c1));
  cp_injected : Permutation (c_injected c1) (c_injected c2) /\ NoDup (map fst (c_injected c1));
  cp_custom_types :
    Permutation (c_custom_types c1) (c_custom_types c2) /\ NoDup (map fst (c_custom_types c1));
  cp_scalars :
    c_sort c1 = c_sort c2 /\ c_use_state c1 = c_use_state c2 /\ c_time_type c1 = c_time_type c2 /\
    c_duration_type c1 = c_duration_type c2 /\ c_duration_custom_type c1 = c_duration_custom_type c2 /\
    c_target_pkg c1 = c_target_pkg c2 /\ c_default_pkg c1 = c_default_pkg c2
}.

Lemma obs_of_perm c1 c2 : cfg_perm c1 c2 -> obs_of c1 = obs_of c2.
Proof.
  intros [Pt Pe Pc Pr Ps [Psu Nsu] [Pn Nn] [Pv Nv] [Pp Np] [Pi Ni] [Pct Nct]
          (Es & Eu & Et & Ed & Edc & _ & _)].
  unfold obs_of. rewrite Es, Eu, Et, Ed, Edc.
  f_equal.
  - extensionality t; extensionality p. now apply flag_perm.
  - extensionality t; extensionality p. now apply flag_perm.
  - extensionality t; extensionality p. now apply flag_perm.
  - extensionality t; extensionality p. now apply flag_perm.
  - extensionality t; extensionality p. now apply by_keys_perm.
  - extensionality t; extensionality p. now apply by_keys_perm.
  - extensionality t; extensionality p. now apply by_keys_perm.
  - extensionality p. now apply lookup_perm.
  - extensionality p. now apply lookup_perm.
  - extensionality p. now apply lookup_perm.
Qed.

Lemma build_roots_perm c1 c2 f : cfg_perm c1 c2 -> build_roots c1 f = build_roots c2 f.
Proof.
  intros H. unfold build_roots. rewrite (obs_of_perm _ _ H).
  apply flat_map_ext. intros d. now rewrite (mem_str_perm _ _ _ (cp_types _ _ H)).
Qed.

Theorem C14_perm c1 c2 f : cfg_perm c1 c2 -> ok_roots c1 f = ok_roots c2 f.
Proof.
  intros H. unfold ok_roots. rewrite (build_roots_perm _ _ f H).
  destruct (cp_scalars _ _ H) as (Es & _). now rewrite Es.
Qed.
Print Assumptions C14_perm.

(* ------------------------------------------------------------------------------------- *)
(* 3. C12: what is generated for a selected type does not depend on the other selected types *)

Definition with_types (A : list string) (c : config) : config :=
  {| c_types := A; c_duration_custom_type := c_duration_custom_type c; c_exclude := c_exclude c;
     c_computed := c_computed c; c_required := c_required c; c_sensitive := c_sensitive c;
     c_target_pkg := c_target_pkg c; c_default_pkg := c_default_pkg c; c_sort := c_sort c;
     c_use_state := c_use_state c; c_suffixes := c_suffixes c; c_name_overrides := c_name_overrides c;
     c_validators := c_validators c; c_planmods := c_planmods c; c_time_type := c_time_type c;
     c_duration_type := c_duration_type c; c_injected := c_injected c;
     c_import_overrides := c_import_overrides c; c_custom_types := c_custom_types c |}.

Lemma obs_of_with_types A c : obs_of (with_types A c) = obs_of c.
Proof. reflexivity. Qed.

Lemma insert_by_perm {A} (key : A -> string) x l : Permutation (insert_by key x l) (x :: l).
Proof.
  induction l as [|y r IH]; cbn; [reflexivity|].
  destruct (str_ltb (key y) (key x)); [|reflexivity].
  rewrite IH. apply perm_swap.
Qed.

Lemma sort_by_perm {A} (key : A -> string) l : Permutation (sort_by key l) l.
Proof.
  induction l as [|x r IH]; cbn; [reflexivity|].
  rewrite insert_by_perm. now constructor.
Qed.

Lemma sort_by_perm_in {A} (key : A -> string) x l : In x (sort_by key l) <-> In x l.
Proof.
  split; apply Permutation_in; [|symmetry]; apply sort_by_perm.
Qed.

Theorem C12_selected cfg f n m :
  In (n, m) (ok_roots cfg f) <->
  mem_str n (c_types cfg) = true /\
  exists d, In d (all_msgs f) /\ md_name d = n /\
            build_message (obs_of cfg) (all_msgs f) (S (List.length (all_msgs f))) d n = BOk m.
Proof.
  assert (E : In (n, m) (ok_roots cfg f) <->
              In (n, m) (flat_map (fun p => match snd p with BOk m => [(fst p, m)] | _ => [] end)
                                  (build_roots cfg f))).
  { unfold ok_roots. destruct (c_sort cfg); [apply sort_by_perm_in|reflexivity]. }
  rewrite E, in_flat_map. unfold build_roots. split.
  - intros ([n' r] & Hp & Hm). cbn [fst snd] in Hm. apply in_flat_map in Hp. destruct Hp as (d & Hd & Hp).
    destruct (mem_str (md_name d) (c_types cfg)) eqn:Hs; [|destruct Hp].
    destruct Hp as [Hp|[]]. injection Hp as Hn Hr. subst n'.
    destruct r as [x|e|]; [|destruct Hm|destruct Hm].
    destruct Hm as [Hm|[]]. injection Hm as Hn Hx. subst n x.
    split; [assumption|]. exists d. auto.
  - intros (Hs & d & Hd & Hn & Hb). subst n.
    exists (md_name d, BOk m). split; [|now left].
    apply in_flat_map. exists d. split; [assumption|]. rewrite Hs, <- Hb. now left.
Qed.
Print Assumptions C12_selected.

Theorem C12_independent A A' c f n m :
  mem_str n A = true -> mem_str n A' = true ->
  (In (n, m) (ok_roots (with_types A c) f) <-> In (n, m) (ok_roots (with_types A' c) f)).
Proof.
  intros H H'. rewrite !C12_selected, !obs_of_with_types.
  cbn [c_types with_types]. rewrite H, H'. reflexivity.
Qed.
Print Assumptions C12_independent.

(* ------------------------------------------------------------------------------------- *)
(* 4. C13: the package options do not reach the intermediate representation *)

Definition with_pkgs (dp tp : string) (io : list (string * string)) (c : config) : config :=
  {| c_types := c_types c; c_duration_custom_type := c_duration_custom_type c; c_exclude := c_exclude c;
     c_computed := c_computed c; c_required := c_required c; c_sensitive := c_sensitive c;
     c_target_pkg := tp; c_default_pkg := dp; c_sort := c_sort c;
     c_use_state := c_use_state c; c_suffixes := c_suffixes c; c_name_overrides := c_name_overrides c;
     c_validators := c_validators c; c_planmods := c_planmods c; c_time_type := c_time_type c;
     c_duration_type := c_duration_type c; c_injected := c_injected c;
     c_import_overrides := io; c_custom_types := c_custom_types c |}.

Lemma obs_of_with_pkgs dp tp io c : obs_of (with_pkgs dp tp io c) = obs_of c.
Proof. reflexivity. Qed.

Lemma build_roots_with_pkgs dp tp io c f : build_roots (with_pkgs dp tp io c) f = build_roots c f.
Proof. reflexivity. Qed.

Theorem C13_sem_equal dp tp io c f : ok_roots (with_pkgs dp tp io c) f = ok_roots c f.
Proof. reflexivity. Qed.
Print Assumptions C13_sem_equal.

(* ------------------------------------------------------------------------------------- *)
(* non-vacuity, and why cfg_perm asks for distinct keys *)

Example cfg_perm_nonvacuous :
  let c1 := with_types ["A"; "B"] (with_pkgs "" "" []
              {| c_types := []; c_duration_custom_type := ""; c_exclude := ["A.x"; "B.y"]; c_computed := [];
                 c_required := []; c_sensitive := []; c_target_pkg := ""; c_default_pkg := ""; c_sort := true;
                 c_use_state := false; c_suffixes := [("T", "t"); ("U", "u")]; c_name_overrides := [];
                 c_validators := []; c_planmods := []; c_time_type := false; c_duration_type := false;
                 c_injected := []; c_import_overrides := []; c_custom_types := [] |}) in
  let c2 := with_types ["B"; "A"] (with_pkgs "" "" []
              {| c_types := []; c_duration_custom_type := ""; c_exclude := ["B.y"; "A.x"]; c_computed := [];
                 c_required := []; c_sensitive := []; c_target_pkg := ""; c_default_pkg := ""; c_sort := true;
                 c_use_state := false; c_suffixes := [("U", "u"); ("T", "t")]; c_name_overrides := [];
                 c_validators := []; c_planmods := []; c_time_type := false; c_duration_type := false;
                 c_injected := []; c_import_overrides := []; c_custom_types := [] |}) in
  cfg_perm c1 c2 /\ c1 <> c2.
Proof.
  cbv zeta. split; [|discriminate].
  constructor; cbn; repeat split; try apply perm_swap; try apply perm_nil; try apply NoDup_nil.
  repeat constructor; cbn; intuition discriminate.
Qed.

(* a Go map has distinct keys; on a list with a repeated key the first-match lookup does see the order *)
Example lookup_perm_needs_NoDup :
  Permutation [("a", 1); ("a", 2)] [("a", 2); ("a", 1)] /\
  lookup "a" [("a", 1); ("a", 2)] <> lookup "a" [("a", 2); ("a", 1)].
Proof. split; [apply perm_swap|discriminate]. Qed.
