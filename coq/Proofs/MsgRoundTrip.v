(* C04 at the level of the message, for the models of Copy<T>ToTerraform (Model/CopyTo.v) and
   Copy<T>FromTerraform (Model/CopyFrom.v): copying a struct value into the empty object of the
   schema's type and copying that object back into the zero value of the struct returns, without
   panic and without diagnostic, a struct which is equivalent to the original up to the normal form
   [nf_equiv], at every nesting depth (copy_round_trip_partial).

   The class of messages, [rt_ok] (stage (e): every kind but the custom types, by mutual induction
   over the IR with message_ind'):
   - tf_ok (CopyToTotal) and flat_ok (CopyFromProofs): no custom-type field, no field promoted from
     a pointer-embedded message (fi_via = [], fi_parent = None), distinct attribute names, a zero
     literal on value scalars only, the object kinds carry their message;
   - the attribute kind of a scalar (element) is the one the generator pairs with its Go type:
     fi_tk = kind_of fi_cast.  The zero literal is free: fi_zero = zero_lit fi_cast as the
     generator sets it for scalars and list elements, fi_zero = false as it sets it for map values
     and pointers, and every other choice tf_ok allows are all covered;
   - all six kinds, nullable or not: scalars, pointer scalars, lists and maps of scalars (nullable
     elements included), messages by value and by pointer, lists and maps of messages, messages
     without fields (the placeholder), nested at any depth;
   - oneofs: the holder is listed in m_oneofs, a branch is a value scalar with a zero literal
     (fi_nullable = false, fi_zero = true, zero_lit fi_cast = true) or a nullable message;
   - Go field names are pairwise distinct within a message and distinct from the holders;
   - the placeholder occurs in messages flagged empty only;
   - m_zero is a struct with exactly the keys of the message, at every depth (the values it holds
     are irrelevant: CopyFrom assigns every field).
   The values, [rt_typed]: [typed] of CopyToTotal with scalars of the field's Go type (integers in
   range, float32 a valid binary32 which is no NaN), maps without repeated keys, exactly the keys
   of the message, and holders which are nil or set to a branch of their oneof.

   Not covered: custom types (the hooks are parameters), fields promoted from nullable embedded
   messages, oneof branches which are pointer scalars, times or durations (a branch without zero
   literal is never rendered null), messages with excluded fields (m_zero has more keys).

   The float32 <-> float64 casts bring the axioms of the standard library's real numbers (through
   Flocq, Proofs/Floats.v); copy_round_trip_nofloat32 is the same theorem for messages without
   float32 scalars and is closed under the global context. *)
From Coq Require Import List String Bool ZArith Lia.
From Coq Require Import Floats.SpecFloat.
From PGT Require Import Base.Strs Base.AList Model.Vals Model.IR Model.CopyTo Model.CopyFrom.
From PGT Require Import Proofs.Ints Proofs.Floats Proofs.CopyToProofs Proofs.CopyFromProofs.
From PGT Require Import Proofs.RoundTripProofs Proofs.CopyToTotal.
From PGT Require Model.Names Model.Desc Model.Build.
Import ListNotations.

(* ------------------------------------------------------------------------------------- *)
(* 1. the Go keys of the struct of a message *)

(* the key of the struct a field lives under: the holder for a oneof branch *)
Definition key_of (i : finfo) : string :=
  match fi_oneof i with Some h => h | None => fi_name i end.

(* the Go fields a message declares itself: one per field which is neither the placeholder nor a
   oneof branch *)
Definition own_names (fs : list field) : list string :=
  flat_map (fun f => if fi_placeholder (f_info f) then []
                     else match fi_oneof (f_info f) with None => [fi_name (f_info f)] | Some _ => [] end) fs.

(* ... and one per oneof *)
Definition go_keys (fs : list field) (os : list string) : list string := own_names fs ++ os.

Definition olist {A} (o : option (list A)) : list A := match o with Some l => l | None => [] end.

(* ------------------------------------------------------------------------------------- *)
(* 2. the class of messages *)

(* the zero value of the struct is a struct with exactly the keys of the message *)
Definition zero_keys_ok (fs : list field) (os : list string) (z : goval) : bool :=
  match z with
  | GStruct zs =>
      forallb (fun k => mem_str k (go_keys fs os)) (keys zs)
      && forallb (fun k => mem_str k (keys zs)) (go_keys fs os)
  | _ => false
  end.

(* one field, beyond tf_ok: the attribute kind is the one the generator pairs with the cast; a
   oneof belongs to the message, its branches are value scalars with a zero literal or nullable
   messages; the name of a plain field is not the name of a holder *)
Definition rt_info_ok (os : list string) (i : finfo) : bool :=
  (if is_prim_kind (fi_kind i) then tfkind_eqb (fi_tk i) (kind_of (fi_cast i)) else true)
  && match fi_oneof i with
     | None => negb (mem_str (fi_name i) os)
     | Some h =>
         mem_str h os
         && match fi_kind i with
            | PrimitiveKind => negb (fi_nullable i) && fi_zero i && zero_lit (fi_cast i)
            | ObjectKind => fi_nullable i
            | _ => false
            end
     end.

Fixpoint rt_more (m : message) {struct m} : bool :=
  match m with
  | Msg _ fs os _ e z =>
      nodup_b (map (fun f => fi_name (f_info f)) fs)
      && (e || forallb (fun f => negb (fi_placeholder (f_info f))) fs)
      && zero_keys_ok fs os z
      && (fix go (l : list field) : bool :=
            match l with
            | [] => true
            | f :: r => frt_more os f && go r
            end) fs
  end
with frt_more (os : list string) (f : field) {struct f} : bool :=
  match f with
  | Field i om => rt_info_ok os i && match om with Some m' => rt_more m' | None => true end
  end.

Definition rt_ok (m : message) : bool := tf_ok m && flat_ok m && rt_more m.

(* the scalar types of the primitive fields and elements are taken from a given set *)
Fixpoint casts_in (S : goscalar -> bool) (m : message) {struct m} : bool :=
  match m with
  | Msg _ fs _ _ _ _ =>
      (fix go (l : list field) : bool :=
         match l with
         | [] => true
         | f :: r => fcasts_in S f && go r
         end) fs
  end
with fcasts_in (S : goscalar -> bool) (f : field) {struct f} : bool :=
  match f with
  | Field i om =>
      (if is_prim_kind (fi_kind i) then S (fi_cast i) else true)
      && match om with Some m' => casts_in S m' | None => true end
  end.

(* ------------------------------------------------------------------------------------- *)
(* 3. the values of the generated struct *)

(* a scalar of the field's Go type: integers in range, a float32 a valid binary32 which is no NaN *)
Definition sval (i : finfo) (g : goval) : Prop := scalar_val (fi_cast i) g.

(* val_shape of CopyToTotal with scalars of the field's Go type and maps without repeated keys *)
Definition rt_val_shape (i : finfo) (T : option (goval -> Prop)) (g : goval) : Prop :=
  match fi_kind i with
  | PrimitiveKind => elem_shape i (sval i) g
  | PrimitiveListKind => exists o, g = GSlice o /\ Forall (elem_shape i (sval i)) (olist o)
  | PrimitiveMapKind =>
      exists o, g = GMap o /\ NoDup (map fst (olist o))
                /\ Forall (fun ka => elem_shape i (sval i) (snd ka)) (olist o)
  | ObjectKind => match T with Some T => elem_shape i T g | None => False end
  | ObjectListKind =>
      match T with
      | Some T => exists o, g = GSlice o /\ Forall (elem_shape i T) (olist o)
      | None => False
      end
  | ObjectMapKind =>
      match T with
      | Some T => exists o, g = GMap o /\ NoDup (map fst (olist o))
                            /\ Forall (fun ka => elem_shape i T (snd ka)) (olist o)
      | None => False
      end
  | CustomKind => False
  end.

(* a holder is nil or set to one of the branches of its oneof *)
Definition holder_ok (fs : list field) (h : string) (gs : list (string * goval)) : Prop :=
  exists hv, lookup h gs = Some hv /\
    (hv = GOneof None \/
     exists f p, In f fs /\ fi_oneof (f_info f) = Some h /\ hv = GOneof (Some (fi_name (f_info f), p))).

Fixpoint rt_typed (m : message) (obj : goval) {struct m} : Prop :=
  match m with
  | Msg _ fs os _ _ _ =>
      exists gs, obj = GStruct gs
        /\ (forall k, In k (keys gs) <-> In k (go_keys fs os))
        /\ (forall h, In h os -> holder_ok fs h gs)
        /\ (fix go (l : list field) : Prop :=
              match l with
              | [] => True
              | f :: r => rt_ftyped f gs /\ go r
              end) fs
  end
with rt_ftyped (f : field) (gs : list (string * goval)) {struct f} : Prop :=
  match f with
  | Field i om =>
      if fi_placeholder i then True
      else reads i (rt_val_shape i (match om with Some m' => Some (rt_typed m') | None => None end)) gs
  end.

(* ------------------------------------------------------------------------------------- *)
(* 4. the normal form equivalence *)

Definition sc_equiv (a b : goval) : Prop := nf_scalar a = nf_scalar b.

(* a value or element: T itself or a pointer to T; nil <-> nil *)
Definition elem_equiv (i : finfo) (E : goval -> goval -> Prop) (a b : goval) : Prop :=
  if fi_nullable i
  then (a = GPtr None /\ b = GPtr None) \/ exists x y, a = GPtr (Some x) /\ b = GPtr (Some y) /\ E x y
  else E a b.

(* nil and empty slices are identified; element-wise otherwise *)
Definition slice_equiv (R : goval -> goval -> Prop) (a b : goval) : Prop :=
  exists oa ob, a = GSlice oa /\ b = GSlice ob /\ Forall2 R (olist oa) (olist ob).

(* nil and empty maps are identified; the same keys (in the order of the association list) with
   equivalent values otherwise *)
Definition map_equiv (R : goval -> goval -> Prop) (a b : goval) : Prop :=
  exists oa ob, a = GMap oa /\ b = GMap ob
                /\ Forall2 (fun x y => fst x = fst y /\ R (snd x) (snd y)) (olist oa) (olist ob).

Definition val_equiv (i : finfo) (E : option (goval -> goval -> Prop)) (a b : goval) : Prop :=
  match fi_kind i with
  | PrimitiveKind => elem_equiv i sc_equiv a b
  | PrimitiveListKind => slice_equiv (elem_equiv i sc_equiv) a b
  | PrimitiveMapKind => map_equiv (elem_equiv i sc_equiv) a b
  | ObjectKind => match E with Some E => elem_equiv i E a b | None => False end
  | ObjectListKind => match E with Some E => slice_equiv (elem_equiv i E) a b | None => False end
  | ObjectMapKind => match E with Some E => map_equiv (elem_equiv i E) a b | None => False end
  | CustomKind => False
  end.

(* the value of the Go expression a field stands for: obj.<Name>, or, for a oneof branch, the
   payload when the holder is set to this branch and the zero value of the branch (the zero scalar,
   the nil pointer) otherwise; this is what the oneof stub of CopyTo computes *)
Definition read_go (i : finfo) (gs : list (string * goval)) : option goval :=
  match fi_oneof i with
  | None => lookup (fi_name i) gs
  | Some h =>
      match lookup h gs with
      | Some (GOneof (Some (b, p))) => Some (if String.eqb b (fi_name i) then p else zero_of_prim i)
      | Some (GOneof None) => Some (zero_of_prim i)
      | _ => None
      end
  end.

(* Two structs of a message are equivalent when they have the same keys, their holders are nil or
   set to a branch of their oneof and, for every field, the values of the field are equivalent.
   For a oneof branch this says: both holders are set to this branch with equivalent payloads, or
   each of them is nil, set to another branch, or set to this branch with the zero payload (a
   scalar branch) resp. the nil pointer (a message branch); see nf_equiv_holder below for the
   statement holder by holder.  Two structs of a message without fields are always equivalent. *)
Fixpoint nf_equiv (m : message) (a b : goval) {struct m} : Prop :=
  match m with
  | Msg _ fs os _ e _ =>
      exists ga gb, a = GStruct ga /\ b = GStruct gb /\
        (if e then True
         else (forall k, In k (keys ga) <-> In k (keys gb))
              /\ (forall h, In h os -> holder_ok fs h ga /\ holder_ok fs h gb)
              /\ (fix go (l : list field) : Prop :=
                    match l with
                    | [] => True
                    | f :: r => fnf_equiv f ga gb /\ go r
                    end) fs)
  end
with fnf_equiv (f : field) (ga gb : list (string * goval)) {struct f} : Prop :=
  match f with
  | Field i om =>
      if fi_placeholder i then True
      else exists va vb, read_go i ga = Some va /\ read_go i gb = Some vb /\
             val_equiv i (match om with Some m' => Some (nf_equiv m') | None => None end) va vb
  end.

(* ------------------------------------------------------------------------------------- *)
(* 5. unfolding *)

Lemma rt_more_eq n fs os inj e z :
  rt_more (Msg n fs os inj e z)
  = nodup_b (map (fun f => fi_name (f_info f)) fs)
    && (e || forallb (fun f => negb (fi_placeholder (f_info f))) fs)
    && zero_keys_ok fs os z
    && forallb (frt_more os) fs.
Proof.
  cbn [rt_more]. apply (f_equal (andb _)).
  induction fs as [|f r IH]; [reflexivity|]. cbn [forallb]. now rewrite IH.
Qed.

Lemma casts_in_eq S n fs os inj e z : casts_in S (Msg n fs os inj e z) = forallb (fcasts_in S) fs.
Proof.
  cbn [casts_in]. induction fs as [|f r IH]; [reflexivity|]. cbn [forallb]. now rewrite IH.
Qed.

Lemma rt_typed_eq n fs os inj e z obj :
  rt_typed (Msg n fs os inj e z) obj <->
  exists gs, obj = GStruct gs
    /\ (forall k, In k (keys gs) <-> In k (go_keys fs os))
    /\ (forall h, In h os -> holder_ok fs h gs)
    /\ Forall (fun f => rt_ftyped f gs) fs.
Proof.
  cbn [rt_typed]. split; intros (gs & E & K & H & T); exists gs; (split; [exact E|]);
    (split; [exact K|]); (split; [exact H|]); clear E K H.
  - induction fs as [|f r IH]; constructor; tauto.
  - induction T; tauto.
Qed.

Lemma nf_equiv_eq n fs os inj e z a b :
  nf_equiv (Msg n fs os inj e z) a b <->
  exists ga gb, a = GStruct ga /\ b = GStruct gb /\
    (if e then True
     else (forall k, In k (keys ga) <-> In k (keys gb))
          /\ (forall h, In h os -> holder_ok fs h ga /\ holder_ok fs h gb)
          /\ Forall (fun f => fnf_equiv f ga gb) fs).
Proof.
  cbn [nf_equiv]. split; intros (ga & gb & Ea & Eb & H); exists ga, gb; (split; [exact Ea|]);
    (split; [exact Eb|]); destruct e; try exact I; destruct H as (K & HO & H); (split; [exact K|]);
    (split; [exact HO|]); clear Ea Eb K HO.
  - induction fs as [|f r IH]; constructor; tauto.
  - induction H; tauto.
Qed.

(* the element decoders of CopyFrom as functions of their own *)
Definition prim_elem (i : finfo) (a : tfval) (ds : list diag) : res (option goval * list diag) :=
  match as_prim i a with
  | Some (n, u, p) => do t <- from_prim_value i n u p; Ok (Some t, ds)
  | None => Ok (None, diag_append ds (ReadConv, fi_path i))
  end.

Definition decode (hook : hook_from_t) (m' : message) (at0 : option (list (string * tfval))) (ds : list diag)
  : res fstate :=
  if m_empty m' then Ok (m_zero m', ds) else from_fields hook m' at0 (m_zero m', ds).

Definition obj_elem (hook : hook_from_t) (i : finfo) (m' : message) (a : tfval) (ds : list diag)
  : res (option goval * list diag) :=
  match a with
  | VObj _ n u at0 =>
      if known n u then
        do '(v, ds') <- decode hook m' at0 ds;
        Ok (Some (if fi_nullable i then GPtr (Some v) else v), ds')
      else Ok (Some (if fi_nullable i then GPtr None else m_zero m'), ds)
  | _ => Ok (None, diag_append ds (ReadConv, fi_path i))
  end.

(* fields which are reached directly (fi_via = [], fi_parent = None), kind by kind *)
Section FromEq.
  Variable hook : hook_from_t.
  Variables (i : finfo) (om : option message) (attrs : list (string * tfval)) (obj : goval) (ds : list diag).
  Hypothesis V : fi_via i = [].
  Hypothesis P : fi_parent i = None.

  Lemma from_field_prim_eq n u p :
    fi_kind i = PrimitiveKind -> lookup (fi_snake i) attrs = Some (VPrim (fi_tk i) n u p) ->
    from_field hook (Field i om) (Some attrs) (obj, ds) =
    do t <- from_prim_value i n u p;
    match fi_oneof i with
    | Some h => if known n u then do obj' <- gset obj h (GOneof (Some (fi_name i, t))); Ok (obj', ds)
                else Ok (obj, ds)
    | None => do obj' <- gset obj (fi_name i) t; Ok (obj', ds)
    end.
  Proof.
    intros K L. cbn [from_field]. rewrite L, K, V, P. cbn [as_prim]. rewrite CopyToProofs.tfkind_eqb_refl.
    unfold alloc_parent. rewrite P. cbn [gset_via bind]. reflexivity.
  Qed.

  Lemma from_field_obj_eq m' aty n u at0 :
    fi_kind i = ObjectKind -> om = Some m' -> lookup (fi_snake i) attrs = Some (VObj aty n u at0) ->
    from_field hook (Field i om) (Some attrs) (obj, ds) =
    match fi_oneof i with
    | None =>
        do obj1 <- gset obj (fi_name i) (if fi_nullable i then GPtr None else m_zero m');
        if known n u then
          do '(v, ds') <- decode hook m' at0 ds;
          do obj' <- gset obj1 (fi_name i) (if fi_nullable i then GPtr (Some v) else v);
          Ok (obj', ds')
        else Ok (obj1, ds)
    | Some h =>
        if known n u then
          do '(v, ds') <- decode hook m' at0 ds;
          do obj' <- gset obj h (GOneof (Some (fi_name i, GPtr (Some v))));
          Ok (obj', ds')
        else Ok (obj, ds)
    end.
  Proof.
    intros K -> L. cbn [from_field]. fold (from_fields hook). rewrite L, K, V, P.
    unfold alloc_parent. rewrite P. cbn [gset_via bind]. reflexivity.
  Qed.

  Lemma from_field_list_eq ety n u el :
    fi_kind i = PrimitiveListKind \/ fi_kind i = ObjectListKind ->
    lookup (fi_snake i) attrs = Some (VList ety n u el) ->
    from_field hook (Field i om) (Some attrs) (obj, ds) =
    do r <- (if known n u then
               fold_left (fun acc a =>
                            do '(vs, ds1) <- acc;
                            do '(ov, ds2) <- (match fi_kind i, om with
                                              | ObjectListKind, Some m' => obj_elem hook i m' a ds1
                                              | _, _ => prim_elem i a ds1
                                              end);
                            Ok (vs ++ [match ov with
                                       | Some v => v
                                       | None => match fi_kind i, om with
                                                 | ObjectListKind, Some m' => if fi_nullable i then GPtr None else m_zero m'
                                                 | _, _ => zero_of_prim i
                                                 end
                                       end], ds2))
                         (olist el) (Ok ([], ds))
             else Ok ([], ds));
    let '(vs, ds') := r in
    do obj' <- gset obj (fi_name i) (GSlice (Some vs)); Ok (obj', ds').
  Proof.
    intros K L. cbn [from_field]. fold (from_fields hook). rewrite L, V, P.
    unfold alloc_parent. rewrite P.
    destruct K as [K|K]; rewrite K; cbn [gset_via bind]; reflexivity.
  Qed.

  Lemma from_field_map_eq ety n u el :
    fi_kind i = PrimitiveMapKind \/ fi_kind i = ObjectMapKind ->
    lookup (fi_snake i) attrs = Some (VMap ety n u el) ->
    from_field hook (Field i om) (Some attrs) (obj, ds) =
    do r <- (if known n u then
               fold_left (fun acc ka =>
                            do '(es, ds1) <- acc;
                            do '(ov, ds2) <- (match fi_kind i, om with
                                              | ObjectMapKind, Some m' => obj_elem hook i m' (snd ka) ds1
                                              | _, _ => prim_elem i (snd ka) ds1
                                              end);
                            Ok (match ov with Some v => update (fst ka) v es | None => es end, ds2))
                         (olist el) (Ok ([], ds))
             else Ok ([], ds));
    let '(es, ds') := r in
    do obj' <- gset obj (fi_name i) (GMap (Some es)); Ok (obj', ds').
  Proof.
    intros K L. cbn [from_field]. fold (from_fields hook). rewrite L, V, P.
    unfold alloc_parent. rewrite P.
    destruct K as [K|K]; rewrite K; cbn [gset_via bind]; reflexivity.
  Qed.
End FromEq.

(* ------------------------------------------------------------------------------------- *)
(* 6. small facts *)

Lemma gset_in fs n v : In n (keys fs) -> gset (GStruct fs) n v = Ok (GStruct (update n v fs)).
Proof. intros H. destruct (keys_lookup _ _ H) as [x E]. cbn [gset]. now rewrite E. Qed.

Lemma update_update {A} k (v w : A) l : update k v (update k w l) = update k v l.
Proof.
  induction l as [|[k' x] r IH]; cbn [update].
  - now rewrite String.eqb_refl.
  - destruct (String.eqb k k') eqn:E; cbn [update]; rewrite ?String.eqb_refl, ?E; [reflexivity|now rewrite IH].
Qed.

Lemma update_notin {A} k (v : A) l : ~ In k (keys l) -> update k v l = l ++ [(k, v)].
Proof.
  induction l as [|[k' x] r IH]; cbn [update keys map fst In app]; [reflexivity|].
  intros N. destruct (String.eqb k k') eqn:E.
  - apply String.eqb_eq in E. subst. exfalso. apply N. now left.
  - rewrite IH; [reflexivity|]. intros X. apply N. now right.
Qed.

Lemma keys_update_same {A} k (v : A) l : In k (keys l) -> keys (update k v l) = keys l.
Proof. apply keys_update_in. Qed.

Lemma mem_str_false x l : mem_str x l = false <-> ~ In x l.
Proof.
  rewrite <- mem_str_In. destruct (mem_str x l); split.
  - discriminate.
  - intros H. exfalso. now apply H.
  - intros _ H. discriminate.
  - reflexivity.
Qed.


(* the element loops *)
Lemma to_list_fold {A} (F : A -> list diag -> res (tfval * list diag)) (Q : A -> tfval -> Prop) ds l :
  Forall (fun a => exists v, F a ds = Ok (v, ds) /\ Q a v) l ->
  forall vs0, exists vs,
    fold_left (fun acc a => do '(vs, ds1) <- acc; do '(v, ds2) <- F a ds1; Ok (vs ++ [v], ds2)) l (Ok (vs0, ds))
    = Ok (vs0 ++ vs, ds) /\ Forall2 Q l vs.
Proof.
  induction 1 as [|a r (v & E & Qa) _ IH]; intros vs0; cbn [fold_left].
  - exists []. now rewrite app_nil_r.
  - cbn [bind]. rewrite E. cbn [bind]. destruct (IH (vs0 ++ [v])) as (vs & E2 & Qs).
    exists (v :: vs). rewrite E2, <- app_assoc. split; [reflexivity|now constructor].
Qed.

Lemma from_list_fold (G : tfval -> list diag -> res (option goval * list diag)) (R : goval -> goval -> Prop)
      z ds (l : list goval) vs :
  Forall2 (fun a v => exists g', G v ds = Ok (Some g', ds) /\ R g' a) l vs ->
  forall gs0, exists gl,
    fold_left (fun acc a => do '(vs, ds1) <- acc; do '(ov, ds2) <- G a ds1;
                            Ok (vs ++ [match ov with Some v => v | None => z end], ds2)) vs (Ok (gs0, ds))
    = Ok (gs0 ++ gl, ds) /\ Forall2 R gl l.
Proof.
  induction 1 as [|a v r vs (g' & E & Ra) _ IH]; intros gs0; cbn [fold_left].
  - exists []. now rewrite app_nil_r.
  - cbn [bind]. rewrite E. cbn [bind]. destruct (IH (gs0 ++ [g'])) as (gl & E2 & Rs).
    exists (g' :: gl). rewrite E2, <- app_assoc. split; [reflexivity|now constructor].
Qed.

Lemma NoDup_app_cons_l {A} (l1 : list A) x l2 : NoDup (l1 ++ x :: l2) -> ~ In x l1 /\ NoDup ((l1 ++ [x]) ++ l2).
Proof.
  intros H. split.
  - apply NoDup_remove_2 in H. intros I. apply H. apply in_or_app. now left.
  - now rewrite <- app_assoc.
Qed.

Lemma keys_app {A} (l1 l2 : list (string * A)) : keys (l1 ++ l2) = keys l1 ++ keys l2.
Proof. unfold keys. apply map_app. Qed.

Lemma to_map_fold {A} (F : string * A -> list diag -> res (tfval * list diag)) (Q : A -> tfval -> Prop) ds
      (l : list (string * A)) :
  Forall (fun ka => exists v, F ka ds = Ok (v, ds) /\ Q (snd ka) v) l ->
  forall es0, NoDup (keys es0 ++ map fst l) -> exists es,
    fold_left (fun acc ka => do '(es, ds1) <- acc; do '(v, ds2) <- F ka ds1; Ok (update (fst ka) v es, ds2))
              l (Ok (es0, ds))
    = Ok (es0 ++ es, ds) /\ Forall2 (fun ka kv => fst ka = fst kv /\ Q (snd ka) (snd kv)) l es.
Proof.
  induction 1 as [|[k a] r (v & E & Qa) _ IH]; intros es0 ND; cbn [fold_left].
  - exists []. now rewrite app_nil_r.
  - cbn [bind]. rewrite E. cbn [bind fst]. cbn [map fst] in ND. apply NoDup_app_cons_l in ND.
    destruct ND as [NI ND]. rewrite (update_notin _ _ _ NI).
    destruct (IH (es0 ++ [(k, v)])) as (es & E2 & Qs).
    { rewrite keys_app. exact ND. }
    exists ((k, v) :: es). rewrite E2, <- app_assoc. split; [reflexivity|]. constructor; [|exact Qs]. now split.
Qed.

Lemma from_map_fold (G : string * tfval -> list diag -> res (option goval * list diag))
      (R : goval -> goval -> Prop) ds (l : list (string * goval)) es :
  Forall2 (fun ka kv => fst ka = fst kv /\ exists g', G kv ds = Ok (Some g', ds) /\ R g' (snd ka)) l es ->
  forall gl0, NoDup (keys gl0 ++ map fst l) -> exists gl,
    fold_left (fun acc ka => do '(es, ds1) <- acc; do '(ov, ds2) <- G ka ds1;
                             Ok (match ov with Some v => update (fst ka) v es | None => es end, ds2))
              es (Ok (gl0, ds))
    = Ok (gl0 ++ gl, ds) /\ Forall2 (fun x y => fst x = fst y /\ R (snd x) (snd y)) gl l.
Proof.
  induction 1 as [|[k a] [k' v] r es (Ek & g' & E & Ra) _ IH]; intros gl0 ND; cbn [fold_left].
  - exists []. now rewrite app_nil_r.
  - cbn [fst snd] in *. subst k'. cbn [bind]. rewrite E. cbn [bind fst]. cbn [map fst] in ND.
    apply NoDup_app_cons_l in ND. destruct ND as [NI ND]. rewrite (update_notin _ _ _ NI).
    destruct (IH (gl0 ++ [(k, g')])) as (gl & E2 & Rs).
    { rewrite keys_app. exact ND. }
    exists ((k, g') :: gl). rewrite E2, <- app_assoc. split; [reflexivity|]. constructor; [|exact Rs]. now split.
Qed.

Lemma Forall2_impl {A B} (P Q : A -> B -> Prop) l l' :
  (forall a b, P a b -> Q a b) -> Forall2 P l l' -> Forall2 Q l l'.
Proof. intros H. induction 1; constructor; auto. Qed.

Lemma Forall2_length {A B} (P : A -> B -> Prop) l l' : Forall2 P l l' -> List.length l = List.length l'.
Proof. induction 1; cbn [List.length]; congruence. Qed.

Section RT.
  Variable hook_to : hook_to_t.
  Variable hook_from : hook_from_t.

  (* the scalar types for which the two facts about the casts are available *)
  Variable SOK : goscalar -> bool.
  Hypothesis SRT : forall s g, SOK s = true -> scalar_val s g ->
    exists p g', cast_to (kind_of s) g = Ok p /\ cast_from s p = Ok g' /\ nf_scalar g' = nf_scalar g.
  Hypothesis SZN : forall s g p, SOK s = true -> zero_lit s = true -> scalar_val s g ->
    cast_to (kind_of s) g = Ok p -> (prim_is_zero p = true <-> nf_scalar g = nf_scalar (zero_scalar s)).

  (* --------------------------------------------------------------------------------- *)
  (* 7. scalars: a value or an element *)

  (* a value rendered null is the zero value, for every scalar type *)
  Lemma null_sound s g p :
    SOK s = true -> scalar_val s g -> cast_to (kind_of s) g = Ok p -> prim_is_zero p = true ->
    nf_scalar g = nf_scalar (zero_scalar s).
  Proof.
    intros OK Sv C Z. destruct (zero_lit s) eqn:ZL; [now apply (SZN s g p OK ZL Sv C)|].
    destruct s; try discriminate ZL;
      destruct g as [[x|x|x|b|x|a b c]|o| | | | |]; cbn [scalar_val] in Sv; try contradiction;
      cbn [kind_of cast_to] in C; injection C as <-; cbn [prim_is_zero] in Z; [discriminate|].
    apply Z.eqb_eq in Z. now subst.
  Qed.

  Definition prim_cond (i : finfo) : Prop :=
    fi_tk i = kind_of (fi_cast i) /\ fi_parent i = None /\ fi_placeholder i = false
    /\ (fi_zero i = true -> fi_nullable i = false) /\ SOK (fi_cast i) = true.

  Lemma prim_elem_rt i g obj ds :
    prim_cond i -> elem_shape i (sval i) g ->
    exists n p,
      to_prim_value i (Ok g) obj (TyPrim (fi_tk i)) None ds = Ok (VPrim (fi_tk i) n false p, ds)
      /\ (exists t, from_prim_value i n false p = Ok t /\ elem_equiv i sc_equiv t g)
      /\ (n = true -> elem_equiv i sc_equiv (zero_of_prim i) g)
      /\ (fi_nullable i = false -> fi_zero i = true -> zero_lit (fi_cast i) = true ->
          sc_equiv (zero_scalar (fi_cast i)) g -> n = true).
  Proof.
    intros (Hk & Hpa & Hp & Hz & OK) Sh. unfold elem_shape, sval in Sh. unfold elem_equiv, zero_of_prim.
    unfold to_prim_value, parent_is_nil. rewrite Hp, Hpa. cbn [null_value]. rewrite CopyToProofs.tfkind_eqb_refl.
    destruct (fi_nullable i) eqn:N.
    - assert (Z : fi_zero i = false) by (destruct (fi_zero i); [now specialize (Hz eq_refl)|reflexivity]).
      rewrite Z. destruct Sh as [->|(x & -> & Sx)].
      + exists true, (zero_prim_of_kind (fi_tk i)).
        split; [destruct (fi_oneof i); reflexivity|]. split.
        * exists (GPtr None). split; [|now left].
          rewrite from_prim_value_null by reflexivity. unfold zero_of_prim. now rewrite N.
        * split; [intros _; now left|discriminate].
      + destruct (SRT _ x OK Sx) as (p & g' & C & F & E). rewrite <- Hk in C.
        exists false, p. split; [destruct (fi_oneof i); cbn [bind]; rewrite C; reflexivity|]. split.
        * exists (GPtr (Some g')). split; [|right; eauto].
          unfold from_prim_value. cbn [known negb andb]. rewrite F. cbn [bind]. now rewrite N.
        * split; discriminate.
    - destruct (SRT _ g OK Sh) as (p & g' & C & F & E).
      assert (C' : cast_to (fi_tk i) g = Ok p) by (now rewrite Hk).
      assert (R : from_prim_value i false false p = Ok g').
      { unfold from_prim_value. cbn [known negb andb]. rewrite F. cbn [bind]. now rewrite N. }
      destruct (fi_zero i) eqn:Z.
      + exists (prim_is_zero p), p.
        split; [destruct (fi_oneof i); cbn [bind]; rewrite C'; reflexivity|]. split.
        * destruct (prim_is_zero p) eqn:PZ; [|eauto].
          exists (zero_scalar (fi_cast i)). split.
          -- rewrite from_prim_value_null by reflexivity. unfold zero_of_prim. now rewrite N.
          -- unfold sc_equiv. symmetry. now apply (null_sound _ g p).
        * split.
          -- intros PZ. unfold sc_equiv. symmetry. now apply (null_sound _ g p).
          -- intros _ _ ZL Eq. apply (SZN _ g p OK ZL Sh C). unfold sc_equiv in Eq. now symmetry.
      + exists false, p. split; [destruct (fi_oneof i); cbn [bind]; rewrite C'; reflexivity|].
        split; [eauto|]. split; discriminate.
  Qed.

  (* --------------------------------------------------------------------------------- *)
  (* 8. reading the source struct *)

  Lemma read_go_active i h gs g :
    fi_oneof i = Some h -> read_go i gs = Some g ->
    lookup h gs = Some (GOneof (Some (fi_name i, g))) \/ g = zero_of_prim i.
  Proof.
    unfold read_go. intros ->. destruct (lookup h gs) as [[| | | | | |[[b p]|]]|]; try discriminate.
    - destruct (String.eqb b (fi_name i)) eqn:E; intros [= <-]; [|now right].
      apply String.eqb_eq in E. subst b. now left.
    - intros [= <-]. now right.
  Qed.

  Lemma reads_go i S gs :
    fi_via i = [] -> fi_parent i = None -> reads i S gs -> (fi_oneof i <> None -> S (zero_of_prim i)) ->
    exists g, read_go i gs = Some g /\ S g
      /\ read_field i (zero_of_prim i) (GStruct gs) = Ok g
      /\ (forall z, fi_oneof i = None \/ z = zero_of_prim i -> read_source i z (GStruct gs) = Ok g)
      /\ (match fi_oneof i with
          | Some h => do _u <- read_holder i h (GStruct gs); Ok tt
          | None => Ok tt
          end) = Ok tt.
  Proof.
    intros V P R Z. unfold reads in R. unfold read_go, read_source, read_field, read_holder, parent_is_nil.
    rewrite P, V. destruct (fi_oneof i) as [h|].
    - destruct R as (hv & L & [->|(b & p & -> & Hp)]); cbn [bind gget_via gfield]; rewrite L; cbn [bind].
      + exists (zero_of_prim i). split; [reflexivity|]. split; [apply Z; discriminate|].
        split; [reflexivity|]. split; [|reflexivity]. intros z [D| ->]; [discriminate|reflexivity].
      + destruct (String.eqb b (fi_name i)) eqn:E.
        * apply String.eqb_eq in E. exists p. split; [reflexivity|]. split; [exact (Hp E)|].
          split; [reflexivity|]. split; [|reflexivity]. intros z _. reflexivity.
        * exists (zero_of_prim i). split; [reflexivity|]. split; [apply Z; discriminate|].
          split; [reflexivity|]. split; [|reflexivity]. intros z [D| ->]; [discriminate|reflexivity].
    - destruct R as (g & L & Sg). cbn [gget_via gfield bind]. rewrite L. exists g.
      split; [reflexivity|]. split; [exact Sg|]. split; [reflexivity|]. split; reflexivity.
  Qed.

  (* --------------------------------------------------------------------------------- *)
  (* 9. one field: what CopyTo writes, CopyFrom reads back *)

  Definition E_of (om : option message) : option (goval -> goval -> Prop) :=
    match om with Some m' => Some (nf_equiv m') | None => None end.

  (* the attribute value v of field f, written from the struct gs, is read back into any target as
     a value equivalent to the field of gs.  A oneof branch either leaves the target alone, and then
     the branch of gs holds the zero value, or sets the holder, and then the holder of gs is set to
     this branch *)
  Definition field_back (f : field) (gs : list (string * goval)) (v : tfval) : Prop :=
    forall attrs tgt ds2,
      lookup (fi_snake (f_info f)) attrs = Some v -> In (key_of (f_info f)) (keys tgt) ->
      exists g, read_go (f_info f) gs = Some g /\
        match fi_oneof (f_info f) with
        | None =>
            exists g', val_equiv (f_info f) (E_of (f_msg f)) g' g /\
              from_field hook_from f (Some attrs) (GStruct tgt, ds2)
              = Ok (GStruct (update (fi_name (f_info f)) g' tgt), ds2)
        | Some h =>
            (val_equiv (f_info f) (E_of (f_msg f)) (zero_of_prim (f_info f)) g /\
             from_field hook_from f (Some attrs) (GStruct tgt, ds2) = Ok (GStruct tgt, ds2))
            \/ (exists g', val_equiv (f_info f) (E_of (f_msg f)) g' g /\
                  lookup h gs = Some (GOneof (Some (fi_name (f_info f), g))) /\
                  from_field hook_from f (Some attrs) (GStruct tgt, ds2)
                  = Ok (GStruct (update h (GOneof (Some (fi_name (f_info f), g'))) tgt), ds2))
        end.

  Definition field_rt (f : field) : Prop :=
    forall gs atys attrs ds t, rt_ftyped f gs -> field_ty f = Some t ->
      lookup (snake f) atys = Some t -> lookup (snake f) attrs = None ->
      exists v, to_field hook_to f (GStruct gs) atys (attrs, ds) = Ok (update (snake f) v attrs, ds)
                /\ field_back f gs v.

  (* what rt_ok says about one field which is not the placeholder *)
  Definition fcond (os : list string) (i : finfo) (om : option message) : Prop :=
    fi_via i = [] /\ fi_parent i = None /\ fi_placeholder i = false /\ fi_kind i <> CustomKind
    /\ (is_prim_kind (fi_kind i) = true -> prim_cond i)
    /\ (is_prim_kind (fi_kind i) = false -> exists m', om = Some m')
    /\ match fi_oneof i with
       | None => ~ In (fi_name i) os
       | Some h => In h os /\
                   ((fi_kind i = PrimitiveKind /\ fi_nullable i = false /\ fi_zero i = true
                     /\ zero_lit (fi_cast i) = true)
                    \/ (fi_kind i = ObjectKind /\ fi_nullable i = true))
       end.

  Lemma zero_of_prim_sval i :
    fi_nullable i = false -> zero_lit (fi_cast i) = true -> sval i (zero_of_prim i).
  Proof.
    intros N Z. unfold zero_of_prim, sval. rewrite N. destruct (fi_cast i); try discriminate Z; cbn; try exact I.
    all: try (unfold in_range; cbn; lia).
    split; [reflexivity|discriminate].
  Qed.

  Lemma field_step_prim os i om :
    fcond os i om -> fi_kind i = PrimitiveKind -> field_rt (Field i om).
  Proof.
    intros (V & P & PH & NC & PC & _ & OO) K gs atys attrs ds t Ty FT La Lc.
    specialize (PC ltac:(now rewrite K)). pose proof PC as (Hk & _ & _ & Hz & OK).
    unfold snake in *. cbn [f_info] in *. cbn [rt_ftyped] in Ty. rewrite PH in Ty.
    unfold rt_val_shape in Ty. rewrite K in Ty. cbn [field_ty] in FT. rewrite K in FT. injection FT as <-.
    destruct (reads_go i _ gs V P Ty) as (g & RG & Sg & RF & _ & RH).
    { intros N. destruct (fi_oneof i) as [h|]; [|congruence].
      destruct OO as [_ [(_ & Nn & _ & ZL)|(D & _)]]; [|congruence].
      unfold elem_shape. rewrite Nn. now apply zero_of_prim_sval. }
    rewrite to_field_eq. cbv zeta. rewrite La, Lc, K, RH, RF. cbn [bind].
    destruct (prim_elem_rt i g (GStruct gs) ds PC Sg) as (n & p & Ev & (tv & Fv & Eq) & NZ & ZN).
    rewrite Ev. cbn [bind]. eexists. split; [reflexivity|].
    intros attrs2 tgt ds2 L I. cbn [f_info f_msg] in *. exists g. split; [exact RG|].
    rewrite (from_field_prim_eq hook_from i om attrs2 (GStruct tgt) ds2 V P n false p K L), Fv. cbn [bind].
    unfold val_equiv. rewrite K. unfold key_of in I.
    destruct (fi_oneof i) as [h|] eqn:O.
    - destruct n; cbn [known negb andb].
      + left. split; [now apply NZ|reflexivity].
      + right. exists tv. split; [exact Eq|]. split; [|now rewrite (gset_in _ _ _ I)].
        destruct (read_go_active i h gs g O RG) as [A|A]; [exact A|]. exfalso.
        destruct OO as [_ [(_ & Nn & Zz & ZL)|(D & _)]]; [|congruence].
        assert (X : false = true); [|discriminate X]. apply (ZN Nn Zz ZL). subst g.
        unfold zero_of_prim. rewrite Nn. reflexivity.
    - exists tv. split; [exact Eq|]. now rewrite (gset_in _ _ _ I).
  Qed.

  (* an element of a list or map of scalars *)
  Lemma prim_elem_Q i a obj ds :
    prim_cond i -> elem_shape i (sval i) a ->
    exists v, to_prim_value i (Ok a) obj (TyPrim (fi_tk i)) None ds = Ok (v, ds)
              /\ forall ds2, exists g', prim_elem i v ds2 = Ok (Some g', ds2) /\ elem_equiv i sc_equiv g' a.
  Proof.
    intros PC Sa. destruct (prim_elem_rt i a obj ds PC Sa) as (n & p & Ev & (tv & Fv & Eq) & _).
    eexists. split; [exact Ev|]. intros ds2. exists tv. split; [|exact Eq].
    unfold prim_elem. cbn [as_prim]. rewrite CopyToProofs.tfkind_eqb_refl, Fv. reflexivity.
  Qed.

  Lemma no_oneof_coll os i om :
    fcond os i om -> fi_kind i <> PrimitiveKind -> fi_kind i <> ObjectKind -> fi_oneof i = None.
  Proof.
    intros (_ & _ & _ & _ & _ & _ & OO) N1 N2. destruct (fi_oneof i); [|reflexivity].
    destruct OO as [_ [(D & _)|(D & _)]]; congruence.
  Qed.

  Lemma field_step_plist os i om :
    fcond os i om -> fi_kind i = PrimitiveListKind -> field_rt (Field i om).
  Proof.
    intros FC K gs atys attrs ds t Ty FT La Lc.
    assert (O : fi_oneof i = None) by (apply (no_oneof_coll os i om FC); rewrite K; discriminate).
    destruct FC as (V & P & PH & NC & PC & _ & OO).
    specialize (PC ltac:(now rewrite K)).
    unfold snake in *. cbn [f_info] in *. cbn [rt_ftyped] in Ty. rewrite PH in Ty.
    unfold rt_val_shape in Ty. rewrite K in Ty. cbn [field_ty] in FT. rewrite K in FT. injection FT as <-.
    destruct (reads_go i _ gs V P Ty) as (g & RG & (o & -> & Sl) & _ & RS & _); [congruence|].
    rewrite to_field_eq. cbv zeta. rewrite La, Lc, K, (RS _ (or_introl O)). cbn [bind].
    assert (HF : Forall (fun a => exists v,
                (fun a d => to_prim_value i (Ok a) (GStruct gs) (TyPrim (fi_tk i)) None d) a ds = Ok (v, ds)
                /\ (fun a v => forall ds2, exists g', prim_elem i v ds2 = Ok (Some g', ds2)
                                                      /\ elem_equiv i sc_equiv g' a) a v) (olist o)).
    { eapply Forall_impl; [|exact Sl]. intros a Sa. now apply prim_elem_Q. }
    destruct (to_list_fold _ _ ds (olist o) HF []) as (vs & Ef & Qs). cbv beta in Ef. cbn [app] in Ef.
    assert (FB : forall nl vs', (nl = false -> vs' = vs) -> (nl = true -> olist o = []) ->
                 field_back (Field i om) gs (VList (TyPrim (fi_tk i)) nl false (Some vs'))).
    { intros nl vs' Hvs Hnl attrs2 tgt ds2 L I. cbn [f_info f_msg] in *. exists (GSlice o). split; [exact RG|].
      unfold key_of in I. rewrite O in *.
      rewrite (from_field_list_eq hook_from i om attrs2 (GStruct tgt) ds2 V P _ _ _ _ (or_introl K) L).
      unfold val_equiv. rewrite K. cbv beta iota. cbn [olist].
      destruct nl; cbn [known negb andb bind].
      - rewrite (gset_in _ _ _ I). eexists. split; [|reflexivity].
        exists (Some []), o. split; [reflexivity|]. split; [reflexivity|]. rewrite (Hnl eq_refl). constructor.
      - rewrite (Hvs eq_refl).
        assert (Q2 : Forall2 (fun a v => exists g', prim_elem i v ds2 = Ok (Some g', ds2)
                                                    /\ elem_equiv i sc_equiv g' a) (olist o) vs).
        { eapply Forall2_impl; [|exact Qs]. intros a v H. exact (H ds2). }
        destruct (from_list_fold _ _ (zero_of_prim i) ds2 _ _ Q2 []) as (gl & Eg & Rg). cbv beta in Eg.
        rewrite Eg. cbn [bind app]. rewrite (gset_in _ _ _ I). eexists. split; [|reflexivity].
        exists (Some gl), o. split; [reflexivity|]. split; [reflexivity|]. exact Rg. }
    destruct o as [l|]; cbv beta iota zeta.
    - cbn [olist] in *. rewrite Ef. cbn [bind]. eexists. split; [reflexivity|]. apply FB; [reflexivity|].
      destruct l; [reflexivity|discriminate].
    - eexists. split; [reflexivity|]. apply FB; [discriminate|reflexivity].
  Qed.

  Lemma field_step_pmap os i om :
    fcond os i om -> fi_kind i = PrimitiveMapKind -> field_rt (Field i om).
  Proof.
    intros FC K gs atys attrs ds t Ty FT La Lc.
    assert (O : fi_oneof i = None) by (apply (no_oneof_coll os i om FC); rewrite K; discriminate).
    destruct FC as (V & P & PH & NC & PC & _ & OO).
    specialize (PC ltac:(now rewrite K)).
    unfold snake in *. cbn [f_info] in *. cbn [rt_ftyped] in Ty. rewrite PH in Ty.
    unfold rt_val_shape in Ty. rewrite K in Ty. cbn [field_ty] in FT. rewrite K in FT. injection FT as <-.
    destruct (reads_go i _ gs V P Ty) as (g & RG & (o & -> & ND & Sl) & _ & RS & _); [congruence|].
    rewrite to_field_eq. cbv zeta. rewrite La, Lc, K, (RS _ (or_introl O)). cbn [bind].
    assert (HF : Forall (fun ka : string * goval => exists v,
                (fun ka d => to_prim_value i (Ok (snd ka)) (GStruct gs) (TyPrim (fi_tk i)) None d) ka ds = Ok (v, ds)
                /\ (fun a v => forall ds2, exists g', prim_elem i v ds2 = Ok (Some g', ds2)
                                                      /\ elem_equiv i sc_equiv g' a) (snd ka) v) (olist o)).
    { eapply Forall_impl; [|exact Sl]. intros a Sa. now apply prim_elem_Q. }
    destruct (to_map_fold _ _ ds (olist o) HF [] ND) as (es & Ef & Qs). cbv beta in Ef. cbn [app] in Ef.
    assert (FB : forall nl es', (nl = false -> es' = es) -> (nl = true -> olist o = []) ->
                 field_back (Field i om) gs (VMap (TyPrim (fi_tk i)) nl false (Some es'))).
    { intros nl es' Hes Hnl attrs2 tgt ds2 L I. cbn [f_info f_msg] in *. exists (GMap o). split; [exact RG|].
      unfold key_of in I. rewrite O in *.
      rewrite (from_field_map_eq hook_from i om attrs2 (GStruct tgt) ds2 V P _ _ _ _ (or_introl K) L).
      unfold val_equiv. rewrite K. cbv beta iota. cbn [olist].
      destruct nl; cbn [known negb andb bind].
      - rewrite (gset_in _ _ _ I). eexists. split; [|reflexivity].
        exists (Some []), o. split; [reflexivity|]. split; [reflexivity|]. rewrite (Hnl eq_refl). constructor.
      - rewrite (Hes eq_refl).
        assert (Q2 : Forall2 (fun (ka : string * goval) (kv : string * tfval) => fst ka = fst kv /\ exists g',
                       (fun kv d => prim_elem i (snd kv) d) kv ds2 = Ok (Some g', ds2)
                       /\ elem_equiv i sc_equiv g' (snd ka)) (olist o) es).
        { eapply Forall2_impl; [|exact Qs]. intros a v [H1 H2]. split; [exact H1|]. exact (H2 ds2). }
        destruct (from_map_fold _ _ ds2 _ _ Q2 [] ND) as (gl & Eg & Rg). cbv beta in Eg.
        rewrite Eg. cbn [bind app]. rewrite (gset_in _ _ _ I). eexists. split; [|reflexivity].
        exists (Some gl), o. split; [reflexivity|]. split; [reflexivity|]. exact Rg. }
    destruct o as [l|]; cbv beta iota zeta.
    - cbn [olist] in *. rewrite Ef. cbn [bind]. eexists. split; [reflexivity|].
      destruct l; apply FB; try reflexivity; discriminate.
    - eexists. split; [reflexivity|]. apply FB; [discriminate|reflexivity].
  Qed.

  (* --------------------------------------------------------------------------------- *)
  (* 10. messages *)

  Definition msg_rt (m : message) : Prop :=
    forall obj ds, rt_typed m obj ->
      exists attrs, to_fields hook_to m obj (msg_ty m) ([], ds) = Ok (attrs, ds) /\
        forall ds2, exists obj',
          from_fields hook_from m (Some attrs) (m_zero m, ds2) = Ok (obj', ds2) /\ nf_equiv m obj' obj.

  Definition nested_ok (m' : message) : Prop :=
    tf_ok m' = true /\ msg_rt m' /\ exists zs, m_zero m' = GStruct zs.

  Lemma rt_typed_struct m x : rt_typed m x -> exists gs, x = GStruct gs.
  Proof. destruct m. rewrite rt_typed_eq. intros (gs & -> & _). eauto. Qed.

  Lemma nf_equiv_empty m ga gb : m_empty m = true -> nf_equiv m (GStruct ga) (GStruct gb).
  Proof. destruct m as [n fs os inj e z]. cbn [m_empty]. intros ->. rewrite nf_equiv_eq. exists ga, gb. auto. Qed.

  (* a message value: a field, a list element, a map value *)
  Lemma obj_val_rt i m' gs g ds :
    nested_ok m' -> elem_shape i (rt_typed m') g ->
    exists n at0,
      obj_value hook_to i (GStruct gs) None m' (Ok g) (msg_ty m') ds
      = Ok (VObj (msg_ty m') n false (Some at0), ds)
      /\ ((n = true /\ fi_nullable i = true /\ g = GPtr None)
          \/ (n = false /\ (fi_nullable i = true -> g <> GPtr None)
              /\ forall ds2, exists x',
                   decode hook_from m' (Some at0) ds2 = Ok (x', ds2)
                   /\ elem_equiv i (nf_equiv m') (if fi_nullable i then GPtr (Some x') else x') g)).
  Proof.
    intros (T' & RT' & zs & Z') S. unfold obj_value. cbv beta iota zeta. unfold elem_shape in S.
    unfold elem_equiv.
    assert (K : forall x, rt_typed m' x ->
                exists at0,
                  (do st' <- to_fields hook_to m' (if m_empty m' then GStruct gs else x) (msg_ty m') ([], ds);
                   let '(attrs', ds') := st' in
                   Ok (VObj (msg_ty m') false false (Some attrs'), ds'))
                  = Ok (VObj (msg_ty m') false false (Some at0), ds)
                  /\ forall ds2, exists x', decode hook_from m' (Some at0) ds2 = Ok (x', ds2) /\ nf_equiv m' x' x).
    { intros x Tx. unfold decode. destruct (m_empty m') eqn:E.
      - destruct (CopyToTotal.total_mutual hook_to m' T' (GStruct gs) ds (empty_typed m' gs T' E))
          as (attrs & Eq & _).
        rewrite Eq. cbn [bind]. exists attrs. split; [reflexivity|]. intros ds2. exists (m_zero m').
        split; [reflexivity|]. destruct (rt_typed_struct _ _ Tx) as (xs & ->). rewrite Z'.
        now apply nf_equiv_empty.
      - destruct (RT' x ds Tx) as (attrs & Eq & Fr). rewrite Eq. cbn [bind]. exists attrs.
        split; [reflexivity|]. exact Fr. }
    destruct (fi_nullable i).
    - destruct S as [->|(x & -> & Tx)]; cbn [bind].
      + exists true, []. split; [reflexivity|]. left. auto.
      + destruct (K x Tx) as (at0 & Eq & Fr). exists false, at0. split; [exact Eq|]. right.
        split; [reflexivity|]. split; [discriminate|]. intros ds2. destruct (Fr ds2) as (x' & D & N).
        exists x'. split; [exact D|]. right. eauto.
    - destruct (K g S) as (at0 & Eq & Fr). exists false, at0. split.
      + destruct (m_empty m'); cbn [bind]; exact Eq.
      + right. split; [reflexivity|]. split; [discriminate|]. exact Fr.
  Qed.

  Lemma zero_of_prim_nullable i : fi_nullable i = true -> zero_of_prim i = GPtr None.
  Proof. unfold zero_of_prim. now intros ->. Qed.

  Lemma field_step_obj os i m' :
    fcond os i (Some m') -> fi_kind i = ObjectKind -> nested_ok m' -> field_rt (Field i (Some m')).
  Proof.
    intros (V & P & PH & NC & _ & _ & OO) K NO gs atys attrs ds t Ty FT La Lc.
    unfold snake in *. cbn [f_info] in *. cbn [rt_ftyped] in Ty. rewrite PH in Ty.
    unfold rt_val_shape in Ty. rewrite K in Ty. cbn [field_ty] in FT. rewrite K in FT. injection FT as <-.
    assert (ON : fi_oneof i <> None -> fi_nullable i = true).
    { intros N. destruct (fi_oneof i) as [h|]; [|congruence].
      destruct OO as [_ [(D & _)|(_ & D)]]; [congruence|exact D]. }
    destruct (reads_go i _ gs V P Ty) as (g & RG & Sg & _ & RS & _).
    { intros N. cbv beta iota. unfold elem_shape. rewrite (ON N). left. apply zero_of_prim_nullable. exact (ON N). }
    assert (RS' : read_source i (if fi_nullable i then GPtr None else m_zero m') (GStruct gs) = Ok g).
    { apply RS. destruct (fi_oneof i) as [h|] eqn:O; [right|now left].
      rewrite ON by discriminate. symmetry. apply zero_of_prim_nullable. apply ON. discriminate. }
    rewrite to_field_eq. cbv zeta. rewrite La, Lc, K, RS'. cbn [bind].
    destruct (obj_val_rt i m' gs g ds NO Sg) as (n & at0 & Ev & Back). rewrite Ev. cbn [bind].
    eexists. split; [reflexivity|].
    intros attrs2 tgt ds2 L I. cbn [f_info f_msg] in *. exists g. split; [exact RG|].
    rewrite (from_field_obj_eq hook_from i (Some m') attrs2 (GStruct tgt) ds2 V P m' _ _ _ _ K eq_refl L).
    unfold val_equiv. rewrite K. cbn [E_of]. unfold key_of in I.
    destruct (fi_oneof i) as [h|] eqn:O.
    - pose proof (ON ltac:(discriminate)) as Nn. rewrite (zero_of_prim_nullable i Nn).
      destruct Back as [(-> & _ & ->)|(-> & NZ & Fr)]; cbn [known negb andb].
      + left. split; [|reflexivity]. unfold elem_equiv. rewrite Nn. now left.
      + right. destruct (Fr ds2) as (x' & D & Eq). rewrite D. cbn [bind]. rewrite (gset_in _ _ _ I). cbn [bind].
        rewrite Nn in Eq. exists (GPtr (Some x')). split; [exact Eq|]. split; [|reflexivity].
        destruct (read_go_active i h gs g O RG) as [A|A]; [exact A|]. exfalso.
        rewrite (zero_of_prim_nullable i Nn) in A. exact (NZ Nn A).
    - rewrite (gset_in _ _ _ I). cbn [bind].
      destruct Back as [(-> & Nn & ->)|(-> & NZ & Fr)]; cbn [known negb andb].
      + rewrite Nn. exists (GPtr None). split; [|reflexivity]. unfold elem_equiv. rewrite Nn. now left.
      + destruct (Fr ds2) as (x' & D & Eq). rewrite D. cbn [bind].
        rewrite gset_in by (rewrite keys_update_same; exact I). cbn [bind]. rewrite update_update.
        eexists. split; [exact Eq|reflexivity].
  Qed.

  Lemma obj_elem_Q i m' gs a ds :
    nested_ok m' -> elem_shape i (rt_typed m') a ->
    exists v, obj_value hook_to i (GStruct gs) None m' (Ok a) (msg_ty m') ds = Ok (v, ds)
              /\ forall ds2, exists g', obj_elem hook_from i m' v ds2 = Ok (Some g', ds2)
                                        /\ elem_equiv i (nf_equiv m') g' a.
  Proof.
    intros NO Sa. destruct (obj_val_rt i m' gs a ds NO Sa) as (n & at0 & Ev & Back).
    eexists. split; [exact Ev|]. intros ds2. unfold obj_elem.
    destruct Back as [(-> & Nn & ->)|(-> & NZ & Fr)]; cbn [known negb andb].
    - rewrite Nn. eexists. split; [reflexivity|]. unfold elem_equiv. rewrite Nn. now left.
    - destruct (Fr ds2) as (x' & D & Eq). rewrite D. cbn [bind]. eexists. split; [reflexivity|exact Eq].
  Qed.

  Lemma field_step_olist os i m' :
    fcond os i (Some m') -> fi_kind i = ObjectListKind -> nested_ok m' -> field_rt (Field i (Some m')).
  Proof.
    intros FC K NO gs atys attrs ds t Ty FT La Lc.
    assert (O : fi_oneof i = None) by (apply (no_oneof_coll os i _ FC); rewrite K; discriminate).
    destruct FC as (V & P & PH & NC & _ & _ & OO).
    unfold snake in *. cbn [f_info] in *. cbn [rt_ftyped] in Ty. rewrite PH in Ty.
    unfold rt_val_shape in Ty. rewrite K in Ty. cbn [field_ty] in FT. rewrite K in FT. injection FT as <-.
    destruct (reads_go i _ gs V P Ty) as (g & RG & (o & -> & Sl) & _ & RS & _); [congruence|].
    rewrite to_field_eq. cbv zeta. rewrite La, Lc, K, (RS _ (or_introl O)). cbn [bind].
    assert (HF : Forall (fun a => exists v,
                (fun a d => obj_value hook_to i (GStruct gs) None m' (Ok a) (msg_ty m') d) a ds = Ok (v, ds)
                /\ (fun a v => forall ds2, exists g', obj_elem hook_from i m' v ds2 = Ok (Some g', ds2)
                                                      /\ elem_equiv i (nf_equiv m') g' a) a v) (olist o)).
    { eapply Forall_impl; [|exact Sl]. intros a Sa. now apply obj_elem_Q. }
    destruct (to_list_fold _ _ ds (olist o) HF []) as (vs & Ef & Qs). cbv beta in Ef. cbn [app] in Ef.
    assert (FB : forall nl vs', (nl = false -> vs' = vs) -> (nl = true -> olist o = []) ->
                 field_back (Field i (Some m')) gs (VList (TyObj (msg_ty m')) nl false (Some vs'))).
    { intros nl vs' Hvs Hnl attrs2 tgt ds2 L I. cbn [f_info f_msg] in *. exists (GSlice o). split; [exact RG|].
      unfold key_of in I. rewrite O in *.
      rewrite (from_field_list_eq hook_from i (Some m') attrs2 (GStruct tgt) ds2 V P _ _ _ _ (or_intror K) L).
      unfold val_equiv. rewrite K. cbv beta iota. cbn [olist E_of].
      destruct nl; cbn [known negb andb bind].
      - rewrite (gset_in _ _ _ I). eexists. split; [|reflexivity].
        exists (Some []), o. split; [reflexivity|]. split; [reflexivity|]. rewrite (Hnl eq_refl). constructor.
      - rewrite (Hvs eq_refl).
        assert (Q2 : Forall2 (fun a v => exists g', obj_elem hook_from i m' v ds2 = Ok (Some g', ds2)
                                                    /\ elem_equiv i (nf_equiv m') g' a) (olist o) vs).
        { eapply Forall2_impl; [|exact Qs]. intros a v H. exact (H ds2). }
        destruct (from_list_fold _ _ (if fi_nullable i then GPtr None else m_zero m') ds2 _ _ Q2 [])
          as (gl & Eg & Rg). cbv beta in Eg.
        rewrite Eg. cbn [bind app]. rewrite (gset_in _ _ _ I). eexists. split; [|reflexivity].
        exists (Some gl), o. split; [reflexivity|]. split; [reflexivity|]. exact Rg. }
    destruct o as [l|]; cbv beta iota zeta.
    - cbn [olist] in *. rewrite Ef. cbn [bind]. eexists. split; [reflexivity|]. apply FB; [reflexivity|].
      destruct l; [reflexivity|discriminate].
    - eexists. split; [reflexivity|]. apply FB; [discriminate|reflexivity].
  Qed.

  Lemma field_step_omap os i m' :
    fcond os i (Some m') -> fi_kind i = ObjectMapKind -> nested_ok m' -> field_rt (Field i (Some m')).
  Proof.
    intros FC K NO gs atys attrs ds t Ty FT La Lc.
    assert (O : fi_oneof i = None) by (apply (no_oneof_coll os i _ FC); rewrite K; discriminate).
    destruct FC as (V & P & PH & NC & _ & _ & OO).
    unfold snake in *. cbn [f_info] in *. cbn [rt_ftyped] in Ty. rewrite PH in Ty.
    unfold rt_val_shape in Ty. rewrite K in Ty. cbn [field_ty] in FT. rewrite K in FT. injection FT as <-.
    destruct (reads_go i _ gs V P Ty) as (g & RG & (o & -> & ND & Sl) & _ & RS & _); [congruence|].
    rewrite to_field_eq. cbv zeta. rewrite La, Lc, K, (RS _ (or_introl O)). cbn [bind].
    assert (HF : Forall (fun ka : string * goval => exists v,
                (fun ka d => obj_value hook_to i (GStruct gs) None m' (Ok (snd ka)) (msg_ty m') d) ka ds = Ok (v, ds)
                /\ (fun a v => forall ds2, exists g', obj_elem hook_from i m' v ds2 = Ok (Some g', ds2)
                                                      /\ elem_equiv i (nf_equiv m') g' a) (snd ka) v) (olist o)).
    { eapply Forall_impl; [|exact Sl]. intros a Sa. now apply obj_elem_Q. }
    destruct (to_map_fold _ _ ds (olist o) HF [] ND) as (es & Ef & Qs). cbv beta in Ef. cbn [app] in Ef.
    assert (FB : forall nl es', (nl = false -> es' = es) -> (nl = true -> olist o = []) ->
                 field_back (Field i (Some m')) gs (VMap (TyObj (msg_ty m')) nl false (Some es'))).
    { intros nl es' Hes Hnl attrs2 tgt ds2 L I. cbn [f_info f_msg] in *. exists (GMap o). split; [exact RG|].
      unfold key_of in I. rewrite O in *.
      rewrite (from_field_map_eq hook_from i (Some m') attrs2 (GStruct tgt) ds2 V P _ _ _ _ (or_intror K) L).
      unfold val_equiv. rewrite K. cbv beta iota. cbn [olist E_of].
      destruct nl; cbn [known negb andb bind].
      - rewrite (gset_in _ _ _ I). eexists. split; [|reflexivity].
        exists (Some []), o. split; [reflexivity|]. split; [reflexivity|]. rewrite (Hnl eq_refl). constructor.
      - rewrite (Hes eq_refl).
        assert (Q2 : Forall2 (fun (ka : string * goval) (kv : string * tfval) => fst ka = fst kv /\ exists g',
                       (fun kv d => obj_elem hook_from i m' (snd kv) d) kv ds2 = Ok (Some g', ds2)
                       /\ elem_equiv i (nf_equiv m') g' (snd ka)) (olist o) es).
        { eapply Forall2_impl; [|exact Qs]. intros a v [H1 H2]. split; [exact H1|]. exact (H2 ds2). }
        destruct (from_map_fold _ _ ds2 _ _ Q2 [] ND) as (gl & Eg & Rg). cbv beta in Eg.
        rewrite Eg. cbn [bind app]. rewrite (gset_in _ _ _ I). eexists. split; [|reflexivity].
        exists (Some gl), o. split; [reflexivity|]. split; [reflexivity|]. exact Rg. }
    destruct o as [l|]; cbv beta iota zeta.
    - cbn [olist] in *. rewrite Ef. cbn [bind]. eexists. split; [reflexivity|].
      destruct l; apply FB; try reflexivity; discriminate.
    - eexists. split; [reflexivity|]. apply FB; [discriminate|reflexivity].
  Qed.

  (* all kinds *)
  Lemma field_step os i om :
    fcond os i om -> (forall m', om = Some m' -> nested_ok m') -> field_rt (Field i om).
  Proof.
    intros FC NO. pose proof FC as (_ & _ & _ & NC & _ & OM & _).
    destruct (fi_kind i) eqn:K.
    - now apply (field_step_prim os).
    - now apply (field_step_plist os).
    - destruct (OM eq_refl) as (m' & ->). apply (field_step_obj os); auto.
    - destruct (OM eq_refl) as (m' & ->). apply (field_step_olist os); auto.
    - now apply (field_step_pmap os).
    - destruct (OM eq_refl) as (m' & ->). apply (field_step_omap os); auto.
    - congruence.
  Qed.

  (* --------------------------------------------------------------------------------- *)
  (* 11. the field loop of CopyTo *)

  Lemma to_loop l gs atys :
    Forall field_rt l -> Forall (fun f => rt_ftyped f gs) l ->
    (forall f, In f l -> exists t, field_ty f = Some t /\ lookup (snake f) atys = Some t) ->
    NoDup (snakes l) ->
    forall attrs ds, (forall f, In f l -> lookup (snake f) attrs = None) ->
    exists attrs', to_field_list hook_to l (GStruct gs) atys (attrs, ds) = Ok (attrs', ds)
      /\ (forall k, ~ In k (snakes l) -> lookup k attrs' = lookup k attrs)
      /\ (forall f, In f l -> exists v, lookup (snake f) attrs' = Some v /\ field_back f gs v).
  Proof.
    induction l as [|f r IH]; intros G T A ND attrs ds N; cbn [to_field_list].
    - exists attrs. split; [reflexivity|]. split; [reflexivity|]. intros f [].
    - inversion G as [|? ? Gf Gr]; subst. inversion T as [|? ? Tf Tr]; subst.
      cbn [snakes map] in ND. inversion ND as [|? ? N1 N2]; subst.
      destruct (A f (or_introl eq_refl)) as (t & FT & La).
      destruct (Gf gs atys attrs ds t Tf FT La (N f (or_introl eq_refl))) as (v & E & Bv).
      rewrite E. cbn [bind].
      destruct (IH Gr Tr (fun f' I => A f' (or_intror I)) N2 (update (snake f) v attrs) ds)
        as (attrs' & E' & L' & B').
      { intros f' I. rewrite lookup_update_neq; [apply N; now right|].
        intros Eq. apply N1. rewrite <- Eq. now apply in_map. }
      exists attrs'. split; [exact E'|]. split.
      + intros k Nk. cbn [snakes map In] in Nk. rewrite L' by tauto. apply lookup_update_neq.
        intros ->. tauto.
      + intros f' [<-|I].
        * rewrite L' by exact N1. rewrite lookup_update_eq. eauto.
        * now apply B'.
  Qed.

  (* --------------------------------------------------------------------------------- *)
  (* 12. the field loop of CopyFrom *)

  Lemma fnf_equiv_eq i om ga gb :
    fnf_equiv (Field i om) ga gb =
    (if fi_placeholder i then True
     else exists va vb, read_go i ga = Some va /\ read_go i gb = Some vb /\ val_equiv i (E_of om) va vb).
  Proof. reflexivity. Qed.

  Lemma read_go_update_other i k v tgt : key_of i <> k -> read_go i (update k v tgt) = read_go i tgt.
  Proof.
    unfold read_go, key_of. destruct (fi_oneof i) as [h|]; intros N; now rewrite lookup_update_neq.
  Qed.

  (* the zero value of a oneof branch is equivalent to itself *)
  Lemma val_equiv_zero os i om : fcond os i om -> fi_oneof i <> None ->
    val_equiv i (E_of om) (zero_of_prim i) (zero_of_prim i).
  Proof.
    intros (_ & _ & _ & _ & _ & OM & OO) N. destruct (fi_oneof i) as [h|]; [|congruence].
    unfold val_equiv, elem_equiv. destruct OO as [_ [(K & Nn & _)|(K & Nn)]]; rewrite K, Nn.
    - reflexivity.
    - destruct (OM ltac:(now rewrite K)) as (m' & ->). cbn [E_of]. left.
      split; now apply zero_of_prim_nullable.
  Qed.

  Section FromLoop.
    Variables (fs : list field) (os : list string) (gs : list (string * goval)) (attrs : list (string * tfval)).
    Hypothesis NDn : NoDup (map (fun f => fi_name (f_info f)) fs).
    Hypothesis FC : forall f, In f fs -> fcond os (f_info f) (f_msg f).
    Hypothesis BK : forall f, In f fs -> exists v, lookup (snake f) attrs = Some v /\ field_back f gs v.

    Definition hold_inv (done : list field) (tgt : list (string * goval)) (h : string) : Prop :=
      lookup h tgt = Some (GOneof None) \/
      exists f t p, In f done /\ fi_oneof (f_info f) = Some h
                    /\ lookup h tgt = Some (GOneof (Some (fi_name (f_info f), t)))
                    /\ lookup h gs = Some (GOneof (Some (fi_name (f_info f), p))).

    Definition loop_inv (done : list field) (tgt : list (string * goval)) : Prop :=
      (forall f, In f done -> fnf_equiv f tgt gs) /\ (forall h, In h os -> hold_inv done tgt h).

    (* two fields of the message with the same Go name are the same field *)
    Lemma names_inj pre f post f' :
      fs = pre ++ f :: post -> In f' pre -> fi_name (f_info f') <> fi_name (f_info f).
    Proof.
      intros E I Eq. rewrite E, map_app in NDn. cbn [map] in NDn. apply NoDup_remove_2 in NDn.
      apply NDn. apply in_or_app. left. rewrite <- Eq. now apply (in_map (fun f => fi_name (f_info f))).
    Qed.

    Lemma loop_step pre f post tgt ds2 K :
      fs = pre ++ f :: post -> keys tgt = K -> (forall f, In f fs -> In (key_of (f_info f)) K) ->
      loop_inv pre tgt ->
      exists tgt', from_field hook_from f (Some attrs) (GStruct tgt, ds2) = Ok (GStruct tgt', ds2)
                   /\ keys tgt' = K /\ loop_inv (pre ++ [f]) tgt'.
    Proof.
      intros E EK HK [IF IH].
      assert (If : In f fs) by (rewrite E; apply in_or_app; right; now left).
      assert (Ipre : forall f', In f' pre -> In f' fs) by (intros f' I; rewrite E; apply in_or_app; now left).
      destruct (BK f If) as (v & L & FB). pose proof (FC f If) as FCf.
      destruct f as [i om]. unfold snake in L. cbn [f_info f_msg] in *.
      pose proof FCf as (_ & _ & PH & _ & _ & _ & OO).
      assert (Ik : In (key_of i) (keys tgt)) by (rewrite EK; exact (HK _ If)).
      destruct (FB attrs tgt ds2 L Ik) as (g & RG & Back). cbn [f_info f_msg] in RG, Back.
      destruct (fi_oneof i) as [h|] eqn:O.
      - destruct OO as [Hh _].
        destruct Back as [(Eq & Ev)|(g' & Eq & Act & Ev)].
        + (* the branch is rendered null: the target is left alone *)
          exists tgt. split; [exact Ev|]. split; [exact EK|]. split.
          * intros f' I. apply in_app_or in I. destruct I as [I|[<-|[]]]; [now apply IF|].
            rewrite fnf_equiv_eq, PH. exists (zero_of_prim i), g. split; [|split; [exact RG|exact Eq]].
            unfold read_go. rewrite O.
            destruct (IH h Hh) as [->|(f0 & t & p & I0 & O0 & -> & _)]; [reflexivity|].
            pose proof (names_inj _ _ _ _ E I0) as NE. cbn [f_info] in NE.
            apply String.eqb_neq in NE. now rewrite NE.
          * intros h' Hh'. destruct (IH h' Hh') as [Z|(f0 & t & p & I0 & R)]; [now left|].
            right. exists f0, t, p. split; [apply in_or_app; now left|exact R].
        + (* the branch is set *)
          exists (update h (GOneof (Some (fi_name i, g'))) tgt). split; [exact Ev|].
          unfold key_of in Ik. rewrite O in Ik. split; [now rewrite keys_update_same|]. split.
          * intros f' I. apply in_app_or in I. destruct I as [I|[<-|[]]].
            -- pose proof (IF f' I) as Old. pose proof (FC f' (Ipre f' I)) as FC'.
               pose proof (names_inj _ _ _ _ E I) as NE.
               destruct f' as [i' om']. cbn [f_info f_msg] in *.
               destruct (string_dec (key_of i') h) as [Kh|Kh].
               ++ pose proof FC' as (_ & _ & PH' & _ & _ & _ & OO').
                  unfold key_of in Kh. destruct (fi_oneof i') as [h'|] eqn:O'.
                  ** subst h'. rewrite fnf_equiv_eq, PH'. apply String.eqb_neq in NE.
                     exists (zero_of_prim i'), (zero_of_prim i').
                     split; [unfold read_go; rewrite O', lookup_update_eq; rewrite String.eqb_sym, NE; reflexivity|].
                     split; [unfold read_go; rewrite O', Act; rewrite String.eqb_sym, NE; reflexivity|].
                     apply (val_equiv_zero os); [exact FC'|congruence].
                  ** exfalso. apply OO'. now rewrite Kh.
               ++ rewrite fnf_equiv_eq in *. destruct (fi_placeholder i'); [exact Old|].
                  now rewrite read_go_update_other.
            -- rewrite fnf_equiv_eq, PH. exists g', g. split; [|split; [exact RG|exact Eq]].
               unfold read_go. rewrite O, lookup_update_eq, String.eqb_refl. reflexivity.
          * intros h' Hh'. destruct (string_dec h' h) as [->|NE].
            -- right. exists (Field i om), g', g. cbn [f_info].
               split; [apply in_or_app; right; now left|]. split; [exact O|].
               split; [apply lookup_update_eq|exact Act].
            -- destruct (IH h' Hh') as [Z|(f0 & t & p & I0 & O0 & L0 & A0)].
               ++ left. now rewrite lookup_update_neq.
               ++ right. exists f0, t, p. split; [apply in_or_app; now left|]. split; [exact O0|].
                  split; [now rewrite lookup_update_neq|exact A0].
      - destruct Back as (g' & Eq & Ev).
        exists (update (fi_name i) g' tgt). split; [exact Ev|].
        unfold key_of in Ik. rewrite O in Ik. split; [now rewrite keys_update_same|]. split.
        + intros f' I. apply in_app_or in I. destruct I as [I|[<-|[]]].
          * pose proof (IF f' I) as Old. pose proof (FC f' (Ipre f' I)) as FC'.
            pose proof (names_inj _ _ _ _ E I) as NE.
            destruct f' as [i' om']. cbn [f_info f_msg] in *.
            rewrite fnf_equiv_eq in *. destruct (fi_placeholder i'); [exact Old|].
            rewrite read_go_update_other; [exact Old|].
            unfold key_of. destruct FC' as (_ & _ & _ & _ & _ & _ & OO').
            destruct (fi_oneof i') as [h'|]; [|exact NE]. destruct OO' as [Hh' _]. intros ->. now apply OO.
          * rewrite fnf_equiv_eq, PH. exists g', g. split; [|split; [exact RG|exact Eq]].
            unfold read_go. rewrite O. apply lookup_update_eq.
        + intros h' Hh'. assert (NE : h' <> fi_name i) by (intros ->; now apply OO).
          destruct (IH h' Hh') as [Z|(f0 & t & p & I0 & O0 & L0 & A0)].
          * left. now rewrite lookup_update_neq.
          * right. exists f0, t, p. split; [apply in_or_app; now left|]. split; [exact O0|].
            split; [now rewrite lookup_update_neq|exact A0].
    Qed.

    Lemma from_loop K : (forall f, In f fs -> In (key_of (f_info f)) K) ->
      forall post pre tgt ds2, fs = pre ++ post -> keys tgt = K -> loop_inv pre tgt ->
      exists tgt', from_field_list hook_from post (Some attrs) (GStruct tgt, ds2) = Ok (GStruct tgt', ds2)
                   /\ keys tgt' = K /\ loop_inv fs tgt'.
    Proof.
      intros HK. induction post as [|f r IH]; intros pre tgt ds2 E EK Inv; cbn [from_field_list].
      - rewrite app_nil_r in E. subst pre. exists tgt. auto.
      - assert (If : In f fs) by (rewrite E; apply in_or_app; right; now left).
        destruct (FC f If) as (_ & _ & PH & _). rewrite PH.
        destruct (loop_step pre f r tgt ds2 K E EK HK Inv) as (tgt1 & Ev & EK1 & Inv1).
        rewrite Ev. cbn [bind]. apply (IH (pre ++ [f])); [now rewrite <- app_assoc|exact EK1|exact Inv1].
    Qed.
  End FromLoop.

  (* --------------------------------------------------------------------------------- *)
  (* 13. the resets at the head of CopyFrom *)

  Lemma fold_res_struct_inv {A} (g : goval -> A -> res goval) (I : list (string * goval) -> Prop) l :
    (forall x, In x l -> forall zs, I zs -> exists zs', g (GStruct zs) x = Ok (GStruct zs') /\ I zs') ->
    forall zs, I zs -> exists zs', fold_res g l (GStruct zs) = Ok (GStruct zs') /\ I zs'.
  Proof.
    induction l as [|x r IH]; intros H zs Hz; cbn [fold_res]; [eauto|].
    destruct (H x (or_introl eq_refl) zs Hz) as (zs1 & -> & H1). cbn [bind].
    apply IH; [|exact H1]. intros y Hy. apply H. now right.
  Qed.

  Definition reset_inv (K os : list string) (zs : list (string * goval)) : Prop :=
    keys zs = K /\ forall h, In h os -> lookup h zs = Some (GOneof None).

  Lemma reset_inv_set K os zs h :
    In h K -> reset_inv K os zs ->
    exists zs', gset (GStruct zs) h (GOneof None) = Ok (GStruct zs') /\ reset_inv K os zs'.
  Proof.
    intros Ih [EK Hn]. subst K. rewrite (gset_in _ _ _ Ih). eexists. split; [reflexivity|]. split.
    - now apply keys_update_same.
    - intros h' Hh'. destruct (string_dec h' h) as [->|NE]; [apply lookup_update_eq|].
      rewrite lookup_update_neq by exact NE. now apply Hn.
  Qed.

  Lemma resets_ok fs os zs :
    (forall h, In h os -> In h (keys zs)) ->
    (forall f, In f fs -> fi_parent (f_info f) = None
                          /\ forall h, fi_oneof (f_info f) = Some h -> In h os) ->
    exists zs', (do o1 <- fold_res reset_oneof os (GStruct zs);
                 do o2 <- fold_res reset_promoted fs o1;
                 fold_res reset_parent fs o2) = Ok (GStruct zs')
                /\ reset_inv (keys zs) os zs'.
  Proof.
    intros HO HF.
    destruct (fold_res_struct_inv reset_oneof (fun zs' => keys zs' = keys zs) os) with (zs := zs)
      as (zs1 & E1 & K1); [|reflexivity|].
    { intros h Hh zs0 K0. unfold reset_oneof. rewrite gset_in by (rewrite K0; now apply HO).
      eexists. split; [reflexivity|]. rewrite keys_update_same by (rewrite K0; now apply HO). exact K0. }
    rewrite E1. cbn [bind].
    assert (R1 : reset_inv (keys zs) os zs1).
    { split; [exact K1|]. intros h Hh.
      pose proof (reset_oneofs_nil h os _ _ E1 (or_introl Hh)) as G. cbn [gfield] in G.
      destruct (lookup h zs1); [now injection G as ->|discriminate]. }
    destruct (fold_res_struct_inv reset_promoted (reset_inv (keys zs) os) fs) with (zs := zs1)
      as (zs2 & E2 & R2); [|exact R1|].
    { intros f Hf zs0 R0. unfold reset_promoted. destruct (HF f Hf) as [Pf Of]. rewrite Pf.
      destruct (fi_oneof (f_info f)) as [h|]; [|eauto].
      apply reset_inv_set; [|exact R0]. apply HO. now apply Of. }
    rewrite E2. cbn [bind].
    apply (fold_res_struct_inv reset_parent (reset_inv (keys zs) os) fs); [|exact R2].
    intros f Hf zs0 R0. unfold reset_parent. destruct (HF f Hf) as [Pf _]. rewrite Pf. eauto.
  Qed.

  Lemma from_field_list_placeholders attrs l st :
    forallb (fun f => fi_placeholder (f_info f)) l = true -> from_field_list hook_from l attrs st = Ok st.
  Proof.
    induction l as [|f r IH]; cbn [forallb from_field_list]; [reflexivity|].
    intros H. apply andb_prop in H. destruct H as [-> H]. now apply IH.
  Qed.

  (* --------------------------------------------------------------------------------- *)
  (* 14. the induction over the IR *)

  Lemma fcond_of os i om :
    finfo_ok i om = true -> rt_info_ok os i = true -> fi_placeholder i = false ->
    (if is_prim_kind (fi_kind i) then SOK (fi_cast i) else true) = true ->
    fcond os i om.
  Proof.
    intros F R PH C. destruct (finfo_ok_inv _ _ F) as (V & P & NC & Z & OM & _ & _).
    unfold rt_info_ok in R. apply andb_prop in R. destruct R as [R1 R2].
    split; [exact V|]. split; [exact P|]. split; [exact PH|]. split; [exact NC|]. split.
    { intros PK. rewrite PK in R1, C. split; [now apply tfkind_eqb_eq|]. split; [exact P|].
      split; [exact PH|]. split; [now apply Z|exact C]. }
    split; [exact OM|].
    destruct (fi_oneof i) as [h|].
    - apply andb_prop in R2. destruct R2 as [R2 R3]. apply mem_str_In in R2. split; [exact R2|].
      destruct (fi_kind i); try discriminate R3.
      + left. apply andb_prop in R3. destruct R3 as [R3 R4]. apply andb_prop in R3. destruct R3 as [R3 R5].
        split; [reflexivity|]. split; [now destruct (fi_nullable i)|]. split; assumption.
      + right. split; [reflexivity|exact R3].
    - apply mem_str_false. now destruct (mem_str (fi_name i) os).
  Qed.

  Lemma own_names_in fs f :
    In f fs -> fi_placeholder (f_info f) = false -> fi_oneof (f_info f) = None ->
    In (fi_name (f_info f)) (own_names fs).
  Proof.
    intros I PH O. unfold own_names. apply in_flat_map. exists f. split; [exact I|]. rewrite PH, O. now left.
  Qed.

  Definition field_P (f : field) : Prop :=
    forall os, ftf_ok f = true -> frt_more os f = true -> fcasts_in SOK f = true ->
               fi_placeholder (f_info f) = false -> field_rt f.

  Definition msg_P (m : message) : Prop :=
    tf_ok m = true -> rt_more m = true -> casts_in SOK m = true -> nested_ok m.

  Lemma msg_step n fs os inj e z : Forall field_P fs -> msg_P (Msg n fs os inj e z).
  Proof.
    intros IH T R C. split; [exact T|].
    pose proof T as T0. rewrite tf_ok_eq in T. rewrite rt_more_eq in R. rewrite casts_in_eq in C.
    apply andb_prop in T. destruct T as [T T3]. apply andb_prop in T. destruct T as [T1 T2].
    apply andb_prop in R. destruct R as [R R4]. apply andb_prop in R. destruct R as [R R3].
    apply andb_prop in R. destruct R as [R1 R2].
    apply nodup_b_NoDup in T1. apply nodup_b_NoDup in R1.
    rewrite forallb_forall in T3, R4, C. rewrite Forall_forall in IH.
    unfold zero_keys_ok in R3. destruct z as [| | | | |zs|]; try discriminate R3.
    apply andb_prop in R3. destruct R3 as [Z1 Z2]. rewrite forallb_forall in Z1, Z2.
    assert (ZK : forall k, In k (keys zs) <-> In k (go_keys fs os)).
    { intros k. split; intros H; apply mem_str_In; auto. }
    split; [|cbn [m_zero]; eauto].
    assert (HOK : forall h, In h os -> In h (keys zs)).
    { intros h Hh. apply ZK. unfold go_keys. apply in_or_app. now right. }
    assert (HF : forall f, In f fs -> fi_parent (f_info f) = None
                                      /\ forall h, fi_oneof (f_info f) = Some h -> In h os).
    { intros [i om] If. pose proof (T3 _ If) as Tf. pose proof (R4 _ If) as Rf.
      cbn [ftf_ok frt_more f_info] in *. apply andb_prop in Tf. destruct Tf as [Tf _].
      apply andb_prop in Rf. destruct Rf as [Rf _].
      destruct (finfo_ok_inv _ _ Tf) as (_ & P & _). split; [exact P|].
      intros h O. unfold rt_info_ok in Rf. rewrite O in Rf. apply andb_prop in Rf. destruct Rf as [_ Rf].
      apply andb_prop in Rf. destruct Rf as [Rf _]. now apply mem_str_In. }
    intros obj ds Ty. cbn [m_zero].
    destruct e.
    - (* a message without fields: the placeholder *)
      cbn [negb orb] in T2. destruct (rt_typed_struct _ _ Ty) as (gs & ->).
      destruct (CopyToTotal.total_mutual hook_to _ T0 (GStruct gs) ds (empty_typed _ gs T0 eq_refl))
        as (attrs & Eq & _).
      exists attrs. split; [exact Eq|]. intros ds2. rewrite from_fields_unfold. cbn [fst snd].
      destruct (resets_ok fs os zs HOK HF) as (zs' & Er & _).
      destruct (fold_res reset_oneof os (GStruct zs)) as [o1|]; cbn [bind] in Er |- *; [|discriminate].
      destruct (fold_res reset_promoted fs o1) as [o2|]; cbn [bind] in Er |- *; [|discriminate].
      rewrite Er. cbn [bind]. rewrite (from_field_list_placeholders _ _ _ T2).
      eexists. split; [reflexivity|]. rewrite nf_equiv_eq. exists zs', gs. auto.
    - (* fields *)
      cbn [orb] in R2. rewrite forallb_forall in R2.
      rewrite rt_typed_eq in Ty. destruct Ty as (gs & -> & GK & GH & Ty).
      assert (FCs : forall f, In f fs -> fcond os (f_info f) (f_msg f)).
      { intros [i om] If. pose proof (T3 _ If) as Tf. pose proof (R4 _ If) as Rf. pose proof (C _ If) as Cf.
        pose proof (R2 _ If) as PH.
        cbn [ftf_ok frt_more fcasts_in f_info f_msg] in *. apply andb_prop in Tf. destruct Tf as [Tf _].
        apply andb_prop in Rf. destruct Rf as [Rf _]. apply andb_prop in Cf. destruct Cf as [Cf _].
        apply fcond_of; auto. now destruct (fi_placeholder i). }
      assert (G : Forall field_rt fs).
      { apply Forall_forall. intros f If. apply (IH f If os); auto.
        specialize (R2 _ If). now destruct (fi_placeholder (f_info f)). }
      assert (A : forall f, In f fs -> exists t, field_ty f = Some t /\ lookup (snake f) (fields_ty fs) = Some t).
      { intros [i om] If. pose proof (T3 _ If) as Ff. cbn [ftf_ok] in Ff.
        apply andb_prop in Ff. destruct Ff as [Ff _].
        destruct (field_ty_some _ _ Ff) as (t & FT). exists t. split; [exact FT|]. now apply lookup_fields_ty. }
      rewrite to_fields_list, msg_ty_eq.
      destruct (to_loop fs gs (fields_ty fs) G Ty A T1 [] ds) as (attrs & Eq & _ & BK); [reflexivity|].
      exists attrs. split; [exact Eq|]. intros ds2. rewrite from_fields_unfold. cbn [fst snd].
      destruct (resets_ok fs os zs HOK HF) as (zs' & Er & KR & NR).
      destruct (fold_res reset_oneof os (GStruct zs)) as [o1|]; cbn [bind] in Er |- *; [|discriminate].
      destruct (fold_res reset_promoted fs o1) as [o2|]; cbn [bind] in Er |- *; [|discriminate].
      rewrite Er. cbn [bind].
      assert (HK : forall f, In f fs -> In (key_of (f_info f)) (keys zs)).
      { intros f If. apply ZK. unfold go_keys, key_of. apply in_or_app.
        destruct (FCs f If) as (_ & _ & PH & _). destruct (HF f If) as [_ Of].
        destruct (fi_oneof (f_info f)) as [h|] eqn:O; [right; now apply Of|left; now apply own_names_in]. }
      destruct (from_loop fs os gs attrs R1 FCs BK (keys zs) HK fs [] zs' ds2 eq_refl KR)
        as (tgt & Ef & Kt & IF & IH').
      { split; [intros f []|]. intros h Hh. left. now apply NR. }
      exists (GStruct tgt). split; [exact Ef|]. rewrite nf_equiv_eq. exists tgt, gs.
      split; [reflexivity|]. split; [reflexivity|]. split; [|split].
      + intros k. rewrite Kt, ZK, GK. reflexivity.
      + intros h Hh. split; [|now apply GH].
        destruct (IH' h Hh) as [Z|(f0 & t & p & I0 & O0 & L0 & _)].
        * exists (GOneof None). split; [exact Z|now left].
        * eexists. split; [exact L0|]. right. exists f0, t. auto.
      + now apply Forall_forall.
  Qed.

  Lemma rt_mutual : forall m, msg_P m.
  Proof.
    apply (message_ind' field_P msg_P).
    - intros i os F R C PH. cbn [ftf_ok frt_more fcasts_in f_info] in *.
      rewrite andb_true_r in F, R, C. apply (field_step os); [now apply fcond_of|]. intros m' [=].
    - intros i m IH os F R C PH. cbn [ftf_ok frt_more fcasts_in f_info] in *.
      apply andb_prop in F. destruct F as [F1 F2]. apply andb_prop in R. destruct R as [R1 R2].
      apply andb_prop in C. destruct C as [C1 C2].
      apply (field_step os); [now apply fcond_of|]. intros m' [= <-]. now apply IH.
    - intros n fs os inj e z IH. now apply msg_step.
  Qed.

  Theorem copy_round_trip_in m obj :
    rt_ok m = true -> casts_in SOK m = true -> rt_typed m obj ->
    exists t obj',
      copy_to hook_to m obj (VObj (msg_ty m) false false None) = Ok (t, []) /\
      copy_from hook_from m t (m_zero m) = Ok (obj', []) /\
      nf_equiv m obj' obj.
  Proof.
    intros R C Ty. unfold rt_ok in R. apply andb_prop in R. destruct R as [R R3].
    apply andb_prop in R. destruct R as [R1 _].
    destruct (rt_mutual m R1 R3 C) as (_ & RT & _).
    destruct (RT obj [] Ty) as (attrs & Eq & Fr). destruct (Fr []) as (obj' & Ef & N).
    exists (VObj (msg_ty m) false false (Some attrs)), obj'. split.
    - cbn [copy_to]. rewrite Eq. reflexivity.
    - split; [exact Ef|exact N].
  Qed.
End RT.

(* ------------------------------------------------------------------------------------- *)
(* 15. C04 for the model *)

Lemma casts_in_all : forall m, casts_in (fun _ => true) m = true.
Proof.
  apply (message_ind' (fun f => fcasts_in (fun _ => true) f = true) (fun m => casts_in (fun _ => true) m = true)).
  - intros i. cbn [fcasts_in]. now destruct (is_prim_kind (fi_kind i)).
  - intros i m IH. cbn [fcasts_in]. rewrite IH. now destruct (is_prim_kind (fi_kind i)).
  - intros n fs os inj e z IH. rewrite casts_in_eq. apply forallb_forall. now apply Forall_forall.
Qed.

Theorem copy_round_trip_partial hook_to hook_from m obj :
  rt_ok m = true -> rt_typed m obj ->
  exists t obj',
    copy_to hook_to m obj (VObj (msg_ty m) false false None) = Ok (t, []) /\
    copy_from hook_from m t (m_zero m) = Ok (obj', []) /\
    nf_equiv m obj' obj.
Proof.
  intros R Ty. apply (copy_round_trip_in hook_to hook_from (fun _ => true)); auto.
  - intros s g _. apply scalar_round_trip.
  - intros s g p _. apply scalar_zero_null.
  - apply casts_in_all.
Qed.

(* the float-free variant: no float32 field or element; closed under the global context *)
Definition not_f32 (s : goscalar) : bool := match s with GsFloat32 => false | _ => true end.

Theorem copy_round_trip_nofloat32 hook_to hook_from m obj :
  rt_ok m = true -> casts_in not_f32 m = true -> rt_typed m obj ->
  exists t obj',
    copy_to hook_to m obj (VObj (msg_ty m) false false None) = Ok (t, []) /\
    copy_from hook_from m t (m_zero m) = Ok (obj', []) /\
    nf_equiv m obj' obj.
Proof.
  intros R C Ty. apply (copy_round_trip_in hook_to hook_from not_f32); auto.
  - intros s g N. apply scalar_round_trip_nofloat. intros ->. discriminate N.
  - intros s g p N. apply scalar_zero_null_nofloat. intros ->. discriminate N.
Qed.

(* ------------------------------------------------------------------------------------- *)
(* 16. rt_ok and rt_typed strengthen the hypotheses of the totality theorems *)

Lemma rt_ok_tf_ok m : rt_ok m = true -> tf_ok m = true.
Proof. unfold rt_ok. intros H. apply andb_prop in H. destruct H as [H _]. apply andb_prop in H. tauto. Qed.

Lemma rt_ok_flat_ok m : rt_ok m = true -> flat_ok m = true.
Proof. unfold rt_ok. intros H. apply andb_prop in H. destruct H as [H _]. apply andb_prop in H. tauto. Qed.

Lemma scalar_val_ok s g : scalar_val s g -> scalar_ok (kind_of s) g = true.
Proof.
  destruct s; destruct g as [[x|x|x|b|x|a b c]|o| | | | |]; cbn [scalar_val]; try contradiction; reflexivity.
Qed.

Lemma elem_shape_impl i (T T' : goval -> Prop) g :
  (forall x, T x -> T' x) -> elem_shape i T g -> elem_shape i T' g.
Proof.
  intros H. unfold elem_shape. destruct (fi_nullable i); [|apply H].
  intros [->|(x & -> & Tx)]; [now left|right; eauto].
Qed.

Lemma reads_impl i (S S' : goval -> Prop) gs : (forall g, S g -> S' g) -> reads i S gs -> reads i S' gs.
Proof.
  intros H. unfold reads. destruct (fi_oneof i) as [h|].
  - intros (hv & L & [->|(b & p & -> & Hp)]); eexists; (split; [exact L|]); [now left|].
    right. exists b, p. split; [reflexivity|]. intros E. apply H. now apply Hp.
  - intros (g & L & Sg). exists g. split; [exact L|now apply H].
Qed.

Lemma rt_val_shape_impl i (T T' : option (goval -> Prop)) g :
  (is_prim_kind (fi_kind i) = true -> fi_tk i = kind_of (fi_cast i)) ->
  match T, T' with
  | Some A, Some B => forall x, A x -> B x
  | None, None => True
  | _, _ => False
  end ->
  rt_val_shape i T g -> val_shape i T' g.
Proof.
  intros Hk HT. unfold rt_val_shape, val_shape.
  assert (SC : is_prim_kind (fi_kind i) = true ->
               forall x, elem_shape i (sval i) x -> elem_shape i (fun y => scalar_ok (fi_tk i) y = true) x).
  { intros PK x. apply elem_shape_impl. intros y Sy. rewrite (Hk PK). now apply scalar_val_ok. }
  destruct (fi_kind i); cbn [is_prim_kind] in SC.
  - now apply SC.
  - intros (o & -> & F). exists o. split; [reflexivity|]. intros l ->. cbn [olist] in F.
    eapply Forall_impl; [|exact F]. intros a. now apply SC.
  - destruct T as [A|], T' as [B|]; try contradiction. now apply elem_shape_impl.
  - destruct T as [A|], T' as [B|]; try contradiction.
    intros (o & -> & F). exists o. split; [reflexivity|]. intros l ->. cbn [olist] in F.
    eapply Forall_impl; [|exact F]. intros a. now apply elem_shape_impl.
  - intros (o & -> & _ & F). exists o. split; [reflexivity|]. intros l ->. cbn [olist] in F.
    eapply Forall_impl; [|exact F]. intros a. now apply SC.
  - destruct T as [A|], T' as [B|]; try contradiction.
    intros (o & -> & _ & F). exists o. split; [reflexivity|]. intros l ->. cbn [olist] in F.
    eapply Forall_impl; [|exact F]. intros a. now apply elem_shape_impl.
  - contradiction.
Qed.

Lemma rt_typed_typed : forall m, rt_more m = true -> forall obj, rt_typed m obj -> typed m obj.
Proof.
  apply (message_ind' (fun f => forall os gs, frt_more os f = true -> rt_ftyped f gs -> ftyped f gs)
                      (fun m => rt_more m = true -> forall obj, rt_typed m obj -> typed m obj)).
  - intros i os gs R. cbn [frt_more rt_ftyped ftyped] in *. rewrite andb_true_r in R.
    destruct (fi_placeholder i); [auto|]. apply reads_impl. intros g. apply rt_val_shape_impl; [|exact I].
    intros PK. unfold rt_info_ok in R. rewrite PK in R. apply andb_prop in R. destruct R as [R _].
    now apply tfkind_eqb_eq.
  - intros i m IH os gs R. cbn [frt_more rt_ftyped ftyped] in *. apply andb_prop in R. destruct R as [R R2].
    destruct (fi_placeholder i); [auto|]. apply reads_impl. intros g. apply rt_val_shape_impl; [|exact (IH R2)].
    intros PK. unfold rt_info_ok in R. rewrite PK in R. apply andb_prop in R. destruct R as [R _].
    now apply tfkind_eqb_eq.
  - intros n fs os inj e z IH R obj. rewrite rt_more_eq in R. apply andb_prop in R. destruct R as [_ R].
    rewrite forallb_forall in R. rewrite rt_typed_eq, typed_eq. intros (gs & -> & _ & _ & T).
    exists gs. split; [reflexivity|]. rewrite Forall_forall in *. intros f If. apply (IH f If os); auto.
Qed.

(* ------------------------------------------------------------------------------------- *)
(* 17. what the equivalence says about the holder of a oneof: both nil; one nil and the other set
   to a branch with the zero payload (the zero scalar, the nil pointer); both set to the same
   branch with equivalent payloads; or set to two branches, each with the zero payload *)

Definition branch_of (fs : list field) (h b : string) (f : field) : Prop :=
  In f fs /\ fi_oneof (f_info f) = Some h /\ fi_name (f_info f) = b.

Lemma nf_equiv_holder n fs os inj z ga gb h :
  nf_equiv (Msg n fs os inj false z) (GStruct ga) (GStruct gb) ->
  (forall f, In f fs -> fi_placeholder (f_info f) = false) ->
  In h os ->
  exists ha hb, lookup h ga = Some (GOneof ha) /\ lookup h gb = Some (GOneof hb) /\
    match ha, hb with
    | None, None => True
    | Some (b, p), None =>
        exists f, branch_of fs h b f /\ val_equiv (f_info f) (E_of (f_msg f)) p (zero_of_prim (f_info f))
    | None, Some (b, p) =>
        exists f, branch_of fs h b f /\ val_equiv (f_info f) (E_of (f_msg f)) (zero_of_prim (f_info f)) p
    | Some (b1, p1), Some (b2, p2) =>
        (b1 = b2 /\ exists f, branch_of fs h b1 f /\ val_equiv (f_info f) (E_of (f_msg f)) p1 p2)
        \/ (b1 <> b2 /\ exists f1 f2,
              branch_of fs h b1 f1 /\ val_equiv (f_info f1) (E_of (f_msg f1)) p1 (zero_of_prim (f_info f1)) /\
              branch_of fs h b2 f2 /\ val_equiv (f_info f2) (E_of (f_msg f2)) (zero_of_prim (f_info f2)) p2)
    end.
Proof.
  rewrite nf_equiv_eq. intros (ga' & gb' & [= <-] & [= <-] & _ & HO & F) PH Hh.
  rewrite Forall_forall in F. destruct (HO h Hh) as [(hva & La & Wa) (hvb & Lb & Wb)].
  assert (FN : forall f, In f fs -> fi_oneof (f_info f) = Some h ->
               exists va vb, read_go (f_info f) ga = Some va /\ read_go (f_info f) gb = Some vb
                             /\ val_equiv (f_info f) (E_of (f_msg f)) va vb).
  { intros [i om] If O. specialize (F _ If). specialize (PH _ If). cbn [f_info f_msg] in *.
    cbn [fnf_equiv] in F. rewrite PH in F. exact F. }
  destruct Wa as [->|(fa & pa & Ia & Oa & ->)], Wb as [->|(fb & pb & Ib & Ob & ->)].
  - exists None, None. auto.
  - exists None, (Some (fi_name (f_info fb), pb)). split; [exact La|]. split; [exact Lb|].
    destruct (FN fb Ib Ob) as (va & vb & Ra & Rb & E). unfold read_go in Ra, Rb. rewrite Ob in Ra, Rb.
    rewrite La in Ra. rewrite Lb, String.eqb_refl in Rb. injection Ra as <-. injection Rb as <-.
    exists fb. split; [repeat split; auto|exact E].
  - exists (Some (fi_name (f_info fa), pa)), None. split; [exact La|]. split; [exact Lb|].
    destruct (FN fa Ia Oa) as (va & vb & Ra & Rb & E). unfold read_go in Ra, Rb. rewrite Oa in Ra, Rb.
    rewrite Lb in Rb. rewrite La, String.eqb_refl in Ra. injection Ra as <-. injection Rb as <-.
    exists fa. split; [repeat split; auto|exact E].
  - exists (Some (fi_name (f_info fa), pa)), (Some (fi_name (f_info fb), pb)).
    split; [exact La|]. split; [exact Lb|].
    destruct (FN fa Ia Oa) as (va & vb & Ra & Rb & E). unfold read_go in Ra, Rb. rewrite Oa in Ra, Rb.
    rewrite La, String.eqb_refl in Ra. rewrite Lb in Rb. injection Ra as <-.
    destruct (string_dec (fi_name (f_info fa)) (fi_name (f_info fb))) as [EQ|NE].
    + left. split; [exact EQ|]. rewrite <- EQ, String.eqb_refl in Rb. injection Rb as <-.
      exists fa. split; [repeat split; auto|exact E].
    + right. split; [exact NE|].
      assert (NE' : String.eqb (fi_name (f_info fb)) (fi_name (f_info fa)) = false)
        by (apply String.eqb_neq; congruence).
      rewrite NE' in Rb. injection Rb as <-.
      destruct (FN fb Ib Ob) as (va' & vb' & Ra' & Rb' & E'). unfold read_go in Ra', Rb'. rewrite Ob in Ra', Rb'.
      rewrite Lb, String.eqb_refl in Rb'. apply String.eqb_neq in NE. rewrite La, NE in Ra'.
      injection Ra' as <-. injection Rb' as <-.
      exists fa, fb. repeat split; auto.
Qed.

(* ------------------------------------------------------------------------------------- *)
(* 18. the hypotheses are satisfiable: a message with two oneofs (scalar and message branches), a
   list of nullable messages, a map and a list of scalars (byte strings), a map of messages, a
   message by value, a pointer scalar, a float32 with a zero literal, a time, a uint64 and a
   nullable message without fields (the generator's placeholder) *)
Module RTExample.
  Local Open Scope string_scope.
  Local Open Scope Z_scope.

  Definition mk (name snake : string) (k : kind) (tk : tfkind) (c : goscalar) (nullable zero : bool)
             (oneof : option string) : finfo :=
    {| fi_name := name; fi_snake := snake; fi_path := snake; fi_kind := k; fi_tk := tk; fi_cast := c;
       fi_nullable := nullable; fi_zero := zero; fi_placeholder := false; fi_oneof := oneof; fi_via := [];
       fi_parent := None; fi_inner := []; fi_required := false; fi_computed := false; fi_sensitive := false;
       fi_validators := []; fi_planmods := []; fi_comment := ""; fi_suffix := "" |}.

  Definition inner : message :=
    Msg "Inner" [Field (mk "A" "a" PrimitiveKind KStr GsString false true None) None;
                 Field (mk "U" "u" PrimitiveKind KI64 GsUint64 false true None) None] [] [] false
        (GStruct [("A", GPrim (PStr "")); ("U", GPrim (PInt 0))]).

  Definition empty : message := Msg "Empty" [Build.placeholder_field "Outer.E"] [] [] true (GStruct []).

  Definition outer : message :=
    Msg "Outer"
        [Field (mk "X" "x" PrimitiveKind KI64 GsInt32 false true (Some "Kind")) None;
         Field (mk "Y" "y" ObjectKind KI64 GsInt64 true false (Some "Kind")) (Some inner);
         Field (mk "Items" "items" ObjectListKind KI64 GsInt64 true false None) (Some inner);
         Field (mk "Labels" "labels" PrimitiveMapKind KStr GsString false false None) None;
         Field (mk "Tags" "tags" PrimitiveListKind KStr GsBytes false true None) None;
         Field (mk "Sub" "sub" ObjectKind KI64 GsInt64 false false None) (Some inner);
         Field (mk "P" "p" PrimitiveKind KBool GsBool true false None) None;
         Field (mk "N" "n" PrimitiveKind KF64 GsFloat32 false true None) None;
         Field (mk "E" "e" ObjectKind KI64 GsInt64 true false None) (Some empty);
         Field (mk "T" "t" PrimitiveKind KTime GsTime false false None) None;
         Field (mk "M" "m" ObjectMapKind KI64 GsInt64 false false None) (Some inner);
         Field (mk "Z" "z" PrimitiveKind KI64 GsInt64 false true (Some "Other")) None]
        ["Kind"; "Other"] [] false
        (GStruct [("Items", GSlice None); ("Labels", GMap None); ("Tags", GSlice None);
                  ("Sub", GStruct [("A", GPrim (PStr "")); ("U", GPrim (PInt 0))]);
                  ("P", GPtr None); ("N", GPrim (PF32 (S754_zero false))); ("E", GPtr None);
                  ("T", GPrim (PTime (-62135596800) 0 0)); ("M", GMap None);
                  ("Kind", GOneof None); ("Other", GOneof None)]).

  Definition inn (a : string) (u : Z) : goval := GStruct [("A", GPrim (PStr a)); ("U", GPrim (PInt u))].

  Definition value : goval :=
    GStruct [("Kind", GOneof (Some ("Y", GPtr (Some (inn "hi" 18446744073709551615)))));
             ("Other", GOneof (Some ("Z", GPrim (PInt 0))));
             ("Items", GSlice (Some [GPtr (Some (inn "" 7)); GPtr None]));
             ("Labels", GMap (Some [("a", GPrim (PStr "x")); ("b", GPrim (PStr ""))]));
             ("Tags", GSlice (Some [GBytes None; GBytes (Some "z"); GBytes (Some "")]));
             ("Sub", inn "s" 0);
             ("P", GPtr (Some (GPrim (PBool false))));
             ("N", GPrim (PF32 (S754_zero true)));
             ("E", GPtr (Some (GStruct [])));
             ("T", GPrim (PTime 5 6 7));
             ("M", GMap None)].

  Lemma outer_ok : rt_ok outer = true.
  Proof. vm_compute. reflexivity. Qed.


  Ltac typed_step :=
    match goal with
    | |- True => exact I
    | |- forall _, _ => intro
    | H : In _ [] |- _ => destruct H
    | H : In _ (_ :: _) |- _ => destruct H as [<-|H]
    | H : ?a = ?b |- _ => discriminate H
    | |- _ <-> _ => cbn; tauto
    | |- _ /\ _ => split
    | |- Forall _ [] => constructor
    | |- Forall _ (_ :: _) => constructor
    | |- NoDup [] => constructor
    | |- NoDup (_ :: _) => constructor; [cbn; intuition discriminate|]
    | |- _ = _ => reflexivity
    | |- _ <> _ => discriminate
    | |- (_ <= _)%Z => lia
    | |- (_ < _)%Z => lia
    | |- _ \/ _ => first [left; reflexivity | right]
    | |- exists _, _ => eexists
    | H : False |- _ => destruct H
    | _ => progress cbn
    end.

  Lemma value_typed : rt_typed outer value.
  Proof.
    unfold outer, value. rewrite rt_typed_eq. eexists. split; [reflexivity|]. split; [|split].
    - intros k. cbn. tauto.
    - intros h [<-|[<-|[]]]; (eexists; split; [reflexivity|]; right).
      + exists (Field (mk "Y" "y" ObjectKind KI64 GsInt64 true false (Some "Kind")) (Some inner)).
        eexists. split; [cbn; tauto|split; reflexivity].
      + exists (Field (mk "Z" "z" PrimitiveKind KI64 GsInt64 false true (Some "Other")) None).
        eexists. split; [cbn; tauto|split; reflexivity].
    - repeat (constructor; [cbn; unfold reads; cbn|]); [..|constructor].
      all: repeat typed_step.
  Qed.

  (* the theorem on this value *)
  Example value_thm :
    exists t obj',
      copy_to std_hook_to outer value (VObj (msg_ty outer) false false None) = Ok (t, []) /\
      copy_from std_hook_from outer t (m_zero outer) = Ok (obj', []) /\
      nf_equiv outer obj' value.
  Proof. exact (copy_round_trip_partial std_hook_to std_hook_from outer value outer_ok value_typed). Qed.

  (* the round trip computed: -0 reads back as +0, the nil map as the empty map, the empty byte
     string as nil, the oneof with the zero payload as nil; 2^64 - 1 goes through int64(-1) *)
  Definition back : goval :=
    GStruct [("Items", GSlice (Some [GPtr (Some (inn "" 7)); GPtr None]));
             ("Labels", GMap (Some [("a", GPrim (PStr "x")); ("b", GPrim (PStr ""))]));
             ("Tags", GSlice (Some [GBytes None; GBytes (Some "z"); GBytes None]));
             ("Sub", inn "s" 0);
             ("P", GPtr (Some (GPrim (PBool false))));
             ("N", GPrim (PF32 (S754_zero false)));
             ("E", GPtr (Some (GStruct [])));
             ("T", GPrim (PTime 5 6 7));
             ("M", GMap (Some []));
             ("Kind", GOneof (Some ("Y", GPtr (Some (inn "hi" 18446744073709551615)))));
             ("Other", GOneof None)].

  Example value_round_trip :
    exists t, copy_to std_hook_to outer value (VObj (msg_ty outer) false false None) = Ok (t, [])
              /\ copy_from std_hook_from outer t (m_zero outer) = Ok (back, []).
  Proof. eexists. split; [vm_compute; reflexivity|]. vm_compute. reflexivity. Qed.

  Example back_equiv : nf_equiv outer back value.
  Proof.
    destruct value_thm as (t & o & E1 & E2 & N). destruct value_round_trip as (t' & E1' & E2').
    rewrite E1 in E1'. injection E1' as <-. rewrite E2 in E2'. injection E2' as <-. exact N.
  Qed.

  (* the equivalence is not trivial *)
  Example not_equiv : ~ nf_equiv inner (inn "a" 0) (inn "b" 0).
  Proof.
    unfold inner. rewrite nf_equiv_eq. intros (ga & gb & [= <-] & [= <-] & _ & _ & F).
    inversion F as [|? ? F1 _]. cbn in F1. destruct F1 as (va & vb & [= <-] & [= <-] & E). discriminate E.
  Qed.
End RTExample.

(* ------------------------------------------------------------------------------------- *)
(* 19. the class contains what the model of the generator (Model/Build.v) builds: a descriptor
   with two oneofs, all six kinds, an enum, a timestamp, a duration, a message embedded by value
   and a message without fields, built with sorted fields *)
Module GenExample.
  Import PGT.Model.Desc PGT.Model.Build.
  Local Open Scope string_scope.
  Local Open Scope Z_scope.

  Definition fd (n : string) (num : Z) (t : ptype) (rep : bool) (nullable : option bool) (embed : bool)
             (oneof : option nat) : fdesc :=
    {| fd_name := n; fd_num := num; fd_type := t; fd_repeated := rep; fd_nullable := nullable;
       fd_embed := embed; fd_cast := ""; fd_custom := ""; fd_stdtime := false; fd_stddur := false;
       fd_jsontag := None; fd_oneof := oneof; fd_comment := "" |}.

  Definition d_inner : mdesc :=
    {| md_name := "Inner"; md_comment := ""; md_oneofs := [];
       md_fields := [fd "a" 1 (PScalar SString) false None false None;
                     fd "u" 2 (PScalar SUint64) false None false None] |}.
  Definition d_empty : mdesc := {| md_name := "Empty"; md_comment := ""; md_oneofs := []; md_fields := [] |}.
  Definition d_emb : mdesc :=
    {| md_name := "Emb"; md_comment := ""; md_oneofs := [];
       md_fields := [fd "flag" 1 (PScalar SBool) false None false None] |}.
  Definition d_outer : mdesc :=
    {| md_name := "Outer"; md_comment := ""; md_oneofs := ["kind"; "other"];
       md_fields :=
         [fd "x" 1 (PScalar SInt32) false None false (Some 0%nat);
          fd "y" 2 (PMsg "Inner") false None false (Some 0%nat);
          fd "items" 3 (PMsg "Inner") true None false None;
          fd "labels" 4 (PMap (PScalar SString) (PScalar SString)) false None false None;
          fd "tags" 5 (PScalar SBytes) true None false None;
          fd "sub" 6 (PMsg "Inner") false (Some false) false None;
          fd "n" 7 (PScalar SFloat) false None false None;
          fd "e" 8 (PMsg "Empty") false None false None;
          fd "t" 9 PTimestamp false (Some false) false None;
          fd "m" 10 (PMap (PScalar SString) (PMsg "Inner")) false None false None;
          fd "z" 11 (PScalar SInt64) false None false (Some 1%nat);
          fd "emb" 12 (PMsg "Emb") false (Some false) true None;
          fd "en" 13 (PEnum "Color") false None false None;
          fd "d" 14 PDuration false (Some false) false None] |}.

  Definition cfg : config :=
    {| c_types := ["Outer"]; c_duration_custom_type := ""; c_exclude := []; c_computed := [];
       c_required := []; c_sensitive := []; c_target_pkg := ""; c_default_pkg := ""; c_sort := true;
       c_use_state := false; c_suffixes := []; c_name_overrides := []; c_validators := [];
       c_planmods := []; c_time_type := true; c_duration_type := true; c_injected := [];
       c_import_overrides := []; c_custom_types := [] |}.

  Example built_ok :
    exists m, build_message (obs_of cfg) [d_inner; d_empty; d_emb; d_outer] 5 d_outer "Outer" = BOk m
              /\ rt_ok m = true /\ List.length (m_fields m) = 14%nat.
  Proof. eexists. split; [vm_compute; reflexivity|]. split; vm_compute; reflexivity. Qed.
End GenExample.

Print Assumptions copy_round_trip_nofloat32.
Print Assumptions copy_round_trip_partial.
