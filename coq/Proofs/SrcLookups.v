(* [configuration] How the front end reaches the configuration, read from the Go sources on every run
   (Generated/Src.v: src_config_uses, src_flag_keys, src_flag_return, written by `vh translate`) and tied
   to the model's cfg_obs / obs_of (Model/Build.v). C14's anchor "configuration maps are only ever indexed
   by key, never ranged over" and C10/C11's "path key first, then Message.Field key" become statements
   about the source as it is now: a range over a configuration map, a map handed to anything but
   GetFlagValue / NewImports, a new key form or a swapped lookup order breaks a proof below at once.
   Syntactic, hence limited: a map aliased through a local variable or a helper is seen only where it
   leaves the Config (mode "arg" / "read"), which the second theorem forbids for map-typed fields. *)
From Coq Require Import List String Ascii Bool NArith.
From PGT Require Import Base.Strs Base.AList Model.Vals Model.Desc Model.Build.
From PGT Require Import Generated.Src.
Import ListNotations.
Open Scope string_scope.

Definition use_fn (u : string * string * string * string) : string := fst (fst (fst u)).
Definition use_field (u : string * string * string * string) : string := snd (fst (fst u)).
Definition use_mode (u : string * string * string * string) : string := snd (fst u).
Definition use_detail (u : string * string * string * string) : string := snd u.

(* the Go type of a Config field, from the struct declaration (src_yaml_keys) *)
Definition cfg_field_type (f : string) : option string :=
  match find (fun r => String.eqb (fst (fst r)) ("Config." ++ f)) src_yaml_keys with
  | Some (_, _, ty) => Some ty
  | None => None
  end.

Definition is_map_type (ty : string) : bool := String.eqb ty "flagMap" || prefix "map[" ty.

Definition map_field (f : string) : bool :=
  match cfg_field_type f with Some ty => is_map_type ty | None => true end.   (* unknown field: treated as a map *)

(* ---- 1. never ranged over ------------------------------------------------------------------------ *)

Theorem src_config_never_ranged :
  forallb (fun u => negb (String.eqb (use_mode u) "range")) src_config_uses = true
  /\ forallb (fun k => negb (String.eqb k "<range>")) src_flag_keys = true.
Proof. vm_compute. split; reflexivity. Qed.

(* ---- 2. map-typed fields are only indexed, by one of three keys, or handed to GetFlagValue / NewImports --- *)

Definition key_forms : list string := ["c.GetPath()"; "c.GetNameWithTypeName()"; "c.GetCustomType()"].

Definition map_use_ok (u : string * string * string * string) : bool :=
  if map_field (use_field u) then
    (String.eqb (use_mode u) "index" && mem_str (use_detail u) key_forms)
    || (String.eqb (use_mode u) "arg" && String.eqb (use_detail u) "c.GetFlagValue"
        && String.eqb (match cfg_field_type (use_field u) with Some ty => ty | None => "" end) "flagMap")
    || (String.eqb (use_mode u) "arg" && String.eqb (use_detail u) "NewImports"
        && String.eqb (use_field u) "ImportPathOverrides")
  else true.

Theorem src_config_maps_only_indexed : forallb map_use_ok src_config_uses = true.
Proof. vm_compute. reflexivity. Qed.

(* every Config field that is used is a declared one *)
Theorem src_config_uses_declared :
  forallb (fun u => match cfg_field_type (use_field u) with Some _ => true | None => false end) src_config_uses = true.
Proof. vm_compute. reflexivity. Qed.

(* ---- 3. GetFlagValue = the model's flag: Message.Field key or path key ---------------------------- *)

Theorem src_flag_value_shape :
  src_flag_keys = ["c.GetNameWithTypeName()"; "c.GetPath()"] /\ src_flag_return = "ok1||ok2".
Proof. split; reflexivity. Qed.

Lemma flag_is_either_key l tn p : flag l tn p = true <-> mem_str tn l = true \/ mem_str p l = true.
Proof. unfold flag. apply orb_true_iff. Qed.

(* which model observable each flag map feeds, and through which source function *)
Definition flag_routes : list (string * string) :=
  map (fun u => (use_fn u, use_field u))
      (filter (fun u => String.eqb (use_mode u) "arg" && String.eqb (use_detail u) "c.GetFlagValue") src_config_uses).

Theorem src_flag_routes :
  flag_routes = [("BuildField", "RequiredFields"); ("BuildField", "SensitiveFields");
                 ("IsExcluded", "ExcludeFields"); ("IsComputed", "ComputedFields")].
Proof. vm_compute. reflexivity. Qed.

(* ---- 4. two-key lookups: path key first, then Message.Field; one-key lookups: the path ------------- *)

Definition index_keys (fn field : string) : list string :=
  map use_detail
      (filter (fun u => String.eqb (use_fn u) fn && String.eqb (use_field u) field && String.eqb (use_mode u) "index")
              src_config_uses).

Definition indexed_fields : list (string * string) :=
  nodup (fun a b => match string_dec (fst a) (fst b), string_dec (snd a) (snd b) with
                    | left e1, left e2 => left (match a, b return fst a = fst b -> snd a = snd b -> a = b with
                                               | (a1, a2), (b1, b2) => fun h1 h2 => f_equal2 pair h1 h2 end e1 e2)
                    | right n, _ => right (fun h => n (f_equal fst h))
                    | _, right n => right (fun h => n (f_equal snd h))
                    end)
        (map (fun u => (use_fn u, use_field u)) (filter (fun u => String.eqb (use_mode u) "index") src_config_uses)).

Definition two_key : list string := ["c.GetPath()"; "c.GetNameWithTypeName()"].

Theorem src_lookup_order :
  index_keys "GetNameSnake" "NameOverrides" = two_key
  /\ index_keys "GetValidators" "Validators" = two_key
  /\ index_keys "GetPlanModifiers" "PlanModifiers" = two_key
  /\ index_keys "GetTerraformTypeOverride" "SchemaTypes" = two_key
  /\ index_keys "GetInjectedFields" "InjectedFields" = ["c.GetPath()"]
  /\ index_keys "IsCustomType" "CustomTypes" = ["c.GetPath()"]
  /\ index_keys "GetCustomType" "CustomTypes" = ["c.GetPath()"]
  /\ index_keys "setCustomType" "Suffixes" = ["c.GetCustomType()"]
  /\ index_keys "IsExcluded" "Types" = ["c.GetPath()"].
Proof. vm_compute. repeat split; reflexivity. Qed.

(* and these are all the indexed lookups there are *)
Theorem src_lookups_complete :
  indexed_fields =
  [("setCustomType", "Suffixes"); ("IsCustomType", "CustomTypes"); ("GetCustomType", "CustomTypes");
   ("GetNameSnake", "NameOverrides"); ("GetValidators", "Validators"); ("GetPlanModifiers", "PlanModifiers");
   ("GetTerraformTypeOverride", "SchemaTypes"); ("IsExcluded", "Types"); ("GetInjectedFields", "InjectedFields")].
Proof. vm_compute. reflexivity. Qed.

(* the model asks the same questions in the same order: by_keys = path first, then Message.Field *)
Theorem model_lookup_order (c : config) (tn p : string) :
  o_name_override (obs_of c) tn p
    = match lookup p (c_name_overrides c) with Some v => Some v | None => lookup tn (c_name_overrides c) end
  /\ o_validators (obs_of c) tn p
    = match lookup p (c_validators c) with Some v => Some v | None => lookup tn (c_validators c) end
  /\ o_planmods (obs_of c) tn p
    = match lookup p (c_planmods c) with Some v => Some v | None => lookup tn (c_planmods c) end
  /\ o_injected (obs_of c) p = lookup p (c_injected c)
  /\ o_custom_type (obs_of c) p = lookup p (c_custom_types c)
  /\ (forall t, o_suffix (obs_of c) t = lookup t (c_suffixes c))
  /\ o_excluded (obs_of c) tn p = (mem_str tn (c_exclude c) || mem_str p (c_exclude c))
  /\ o_required (obs_of c) tn p = (mem_str tn (c_required c) || mem_str p (c_required c))
  /\ o_computed (obs_of c) tn p = (mem_str tn (c_computed c) || mem_str p (c_computed c))
  /\ o_sensitive (obs_of c) tn p = (mem_str tn (c_sensitive c) || mem_str p (c_sensitive c)).
Proof. repeat split; reflexivity. Qed.

(* a path entry shadows a Message.Field entry, never the other way round (both present) *)
Theorem path_key_wins {A} (m : list (string * A)) tn p v :
  lookup p m = Some v -> by_keys m tn p = Some v.
Proof. unfold by_keys. intros ->. reflexivity. Qed.

Theorem type_key_is_fallback {A} (m : list (string * A)) tn p :
  lookup p m = None -> by_keys m tn p = lookup tn m.
Proof. unfold by_keys. intros ->. reflexivity. Qed.
