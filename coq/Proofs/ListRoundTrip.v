(* C19 for the repeated and map shapes of a scalar: the elements of a repeated scalar field and the
   values of a map<string, scalar> field survive Copy<T>ToTerraform (Model/CopyTo.v, to_field, the
   PrimitiveListKind / PrimitiveMapKind branches) followed by Copy<T>FromTerraform
   (Model/CopyFrom.v, from_field), element by element, with no bound on the sizes.

   The point which is pinned: genPrimitiveBody renders an ELEMENT whose value is the zero value as
   a null element (fi_zero is set for list elements), but the LIST itself is null only when the
   source slice is nil or empty.  A list which holds zeros only ([0], [false; false], [""]) is
   therefore written as a non-null list of null elements, and every one of them is read back as
   the zero value: the length is preserved.  A generator which marked the list null "when all its
   elements are null" would make CopyFrom skip the element loop (known n u = false) and return an
   empty slice: C19_list_round_trip, C19_list_all_zero_survives and the examples at the end all
   fail on such a model (null_list_loses_elements shows the loss on the reading side).

   Contents
   1. the two facts about one scalar value the proofs need ([casts_back]), from the existing
      scalar theorems (RoundTripProofs: scalar_round_trip*, scalar_zero_null*; MsgRoundTrip:
      null_sound); closed for every type but float32, closed for the zero value of EVERY type;
   2. one element: to_prim_value then prim_elem;
   3. lists: C19_list_round_trip (float32 excluded, closed), C19_list_round_trip_float32 (every
      scalar type; through Flocq and the axioms of the standard library's reals),
      C19_list_all_zero_survives (every scalar type, closed), C19_list_empty;
   4. maps: C19_map_round_trip, C19_map_round_trip_float32, C19_map_all_zero_survives,
      C19_map_empty, and the role of the order of the association list;
   5. examples by computation.

   Scope: value elements (fi_nullable = false).  Pointer elements (a null element <-> a nil
   pointer) are part of MsgRoundTrip.copy_round_trip_partial; nothing here is false for them, they
   are just not restated. *)
From Coq Require Import List String Bool ZArith Lia.
From Coq Require Import Floats.SpecFloat.
From PGT Require Import Base.Strs Base.AList Model.Vals Model.IR Model.CopyTo Model.CopyFrom.
From PGT Require Import Proofs.Ints Proofs.Floats Proofs.CopyToProofs Proofs.CopyFromProofs.
From PGT Require Import Proofs.RoundTripProofs Proofs.CopyToTotal Proofs.MsgRoundTrip.
Import ListNotations.

(* ------------------------------------------------------------------------------------- *)
(* 1. one scalar value *)

(* what the element loops need to know about a Go value g of scalar type s:
   - the cast to the attribute kind succeeds and the cast back returns g up to the normal form
     (nf_scalar: the two float zeros, nil / empty bytes);
   - if the payload tests equal to the zero literal, g is the zero value;
   - conversely (types with a zero literal) the zero value tests equal to the zero literal *)
Definition casts_back (s : goscalar) (g : goval) : Prop :=
  (exists p g', cast_to (kind_of s) g = Ok p /\ cast_from s p = Ok g' /\ nf_scalar g' = nf_scalar g)
  /\ (forall p, cast_to (kind_of s) g = Ok p -> prim_is_zero p = true ->
                nf_scalar g = nf_scalar (zero_scalar s))
  /\ (forall p, zero_lit s = true -> cast_to (kind_of s) g = Ok p ->
                nf_scalar g = nf_scalar (zero_scalar s) -> prim_is_zero p = true).

(* every scalar type but float32: closed *)
Lemma casts_back_nofloat s g : s <> GsFloat32 -> scalar_val s g -> casts_back s g.
Proof.
  intros NF Sv.
  assert (OK : not_f32 s = true) by (destruct s; try reflexivity; congruence).
  assert (SZN : forall s g p, not_f32 s = true -> zero_lit s = true -> scalar_val s g ->
                  cast_to (kind_of s) g = Ok p ->
                  (prim_is_zero p = true <-> nf_scalar g = nf_scalar (zero_scalar s))).
  { intros s0 g0 p0 N. apply scalar_zero_null_nofloat. intros ->. discriminate N. }
  split; [now apply scalar_round_trip_nofloat|]. split.
  - intros p C Z. exact (null_sound not_f32 SZN s g p OK Sv C Z).
  - intros p ZL C E. now apply (SZN s g p OK ZL Sv C).
Qed.

(* every scalar type: float32 through narrow_widen (Proofs/Floats.v) *)
Lemma casts_back_any s g : scalar_val s g -> casts_back s g.
Proof.
  intros Sv.
  assert (SZN : forall s g p, (fun _ : goscalar => true) s = true -> zero_lit s = true -> scalar_val s g ->
                  cast_to (kind_of s) g = Ok p ->
                  (prim_is_zero p = true <-> nf_scalar g = nf_scalar (zero_scalar s))).
  { intros s0 g0 p0 _. apply scalar_zero_null. }
  split; [now apply scalar_round_trip|]. split.
  - intros p C Z. exact (null_sound (fun _ => true) SZN s g p eq_refl Sv C Z).
  - intros p ZL C E. now apply (SZN s g p eq_refl ZL Sv C).
Qed.

(* the zero value of a scalar type is a value of the type *)
Lemma zero_scalar_val s : scalar_val s (zero_scalar s).
Proof.
  destruct s; cbn [zero_scalar scalar_val]; try exact I; try (unfold in_range; lia).
  split; [reflexivity|discriminate].
Qed.

(* ... and for it the facts hold by computation, float32 included: closed for every type *)
Lemma casts_back_zero s : casts_back s (zero_scalar s).
Proof.
  assert (D : s = GsFloat32 \/ s <> GsFloat32) by (destruct s; (now left) || (right; discriminate)).
  destruct D as [->|N]; [|apply casts_back_nofloat; [exact N|apply zero_scalar_val]].
  split; [|split].
  - exists (PF64 (S754_zero false)), (GPrim (PF32 (S754_zero false))). repeat split; reflexivity.
  - intros p _ _. reflexivity.
  - intros p _ C _. cbn in C. injection C as <-. reflexivity.
Qed.

Print Assumptions casts_back_nofloat.
Print Assumptions casts_back_zero.

(* ------------------------------------------------------------------------------------- *)
(* 2. one element *)

(* the element (or map value) type of the field is a scalar held by value, paired with the
   attribute kind the generator gives it; the field is reached directly *)
Definition value_elems (i : finfo) : Prop :=
  fi_oneof i = None /\ fi_parent i = None /\ fi_via i = [] /\ fi_placeholder i = false
  /\ fi_nullable i = false /\ fi_tk i = kind_of (fi_cast i).

(* a plain repeated scalar / a plain map of scalars.  Nothing is assumed about fi_zero: the
   generator sets it for list elements with a zero literal and clears it for map values; both
   choices (and the others) are covered *)
Definition repeated_scalar (i : finfo) : Prop := fi_kind i = PrimitiveListKind /\ value_elems i.
Definition map_of_scalars (i : finfo) : Prop := fi_kind i = PrimitiveMapKind /\ value_elems i.

(* what CopyTo writes for the element a: a known value of the field's kind, which is null only if a
   is the zero value, and (zero literal present) is null if a is the zero value *)
Definition elem_written (i : finfo) (a : goval) (v : tfval) : Prop :=
  exists n p, v = VPrim (fi_tk i) n false p
    /\ (n = true -> sc_equiv a (zero_scalar (fi_cast i)))
    /\ (fi_zero i = true -> zero_lit (fi_cast i) = true -> sc_equiv a (zero_scalar (fi_cast i)) -> n = true).

Lemma elem_round_trip i a obj ds :
  value_elems i -> casts_back (fi_cast i) a ->
  exists v, to_prim_value i (Ok a) obj (TyPrim (fi_tk i)) None ds = Ok (v, ds)
            /\ elem_written i a v
            /\ forall ds2, exists g', prim_elem i v ds2 = Ok (Some g', ds2) /\ sc_equiv g' a.
Proof.
  intros (Ho & Hpa & _ & Hp & Hn & Hk) ((p & g' & C & F & N) & NS & ZN).
  assert (C' : cast_to (fi_tk i) a = Ok p) by (rewrite Hk; exact C).
  rewrite (to_prim_value_absent i a p obj _ ds Hp Hn Ho Hpa eq_refl C').
  eexists. split; [reflexivity|].
  assert (W : (if fi_zero i then prim_is_zero p else false) = true -> sc_equiv a (zero_scalar (fi_cast i))).
  { intros E. destruct (fi_zero i); [exact (NS p C E)|discriminate E]. }
  split.
  - do 2 eexists. split; [reflexivity|]. split; [exact W|].
    intros Z ZL E. rewrite Z. exact (ZN p ZL C E).
  - intros ds2. unfold prim_elem. cbn [as_prim]. rewrite CopyToProofs.tfkind_eqb_refl.
    destruct (if fi_zero i then prim_is_zero p else false) eqn:NL.
    + rewrite from_prim_value_null by reflexivity. cbn [bind]. unfold zero_of_prim. rewrite Hn.
      eexists. split; [reflexivity|]. unfold sc_equiv. symmetry. now apply W.
    + unfold from_prim_value. cbn [known negb andb]. rewrite F. cbn [bind]. rewrite Hn.
      eexists. split; [reflexivity|exact N].
Qed.

(* ------------------------------------------------------------------------------------- *)
(* 3. lists *)

Lemma gset_frame tgt n prior v :
  gfield tgt n = Ok prior ->
  exists tgt', gset tgt n v = Ok tgt' /\ gfield tgt' n = Ok v
               /\ forall n', n' <> n -> gfield tgt' n' = gfield tgt n'.
Proof.
  intros G. destruct (gset_total tgt n prior v G) as [tgt' E]. exists tgt'. split; [exact E|].
  split; [eapply gset_same; eauto|]. intros n' D. eapply gset_other; eauto.
Qed.

(* The conclusion for the source list l: CopyTo on a target without the attribute, then CopyFrom
   of the object CopyTo produced into ANY struct which has the field (whatever it held before) *)
Definition list_round_trip (hook_to : hook_to_t) (hook_from : hook_from_t) (i : finfo) (om : option message)
           (obj : goval) (atys : list (string * tfty)) (attrs : attrs_t) (ds : list diag) (l : list goval) : Prop :=
  exists attrs' vs,
    (* no panic, no new diagnostic *)
    to_field hook_to (Field i om) obj atys (attrs, ds) = Ok (attrs', ds)
    (* the attribute is a NON-NULL, known list ... *)
    /\ lookup (fi_snake i) attrs' = Some (VList (TyPrim (fi_tk i)) false false (Some vs))
    /\ (forall k, k <> fi_snake i -> lookup k attrs' = lookup k attrs)
    (* ... with one element per source element, null only where the source element is zero *)
    /\ List.length vs = List.length l
    /\ Forall2 (elem_written i) l vs
    /\ forall tgt prior ds2,
         gfield tgt (fi_name i) = Ok prior ->
         exists tgt' l',
           from_field hook_from (Field i om) (Some attrs') (tgt, ds2) = Ok (tgt', ds2)
           /\ gfield tgt' (fi_name i) = Ok (GSlice (Some l'))
           /\ (forall n', n' <> fi_name i -> gfield tgt' n' = gfield tgt n')
           /\ List.length l' = List.length l
           /\ Forall2 sc_equiv l' l.

(* the reading side alone: the elements CopyTo wrote, under a non-null list, in any attribute list *)
Lemma list_read_back hook_from i om l vs attrs2 tgt prior ds2 :
  repeated_scalar i ->
  Forall2 (fun a v => forall ds2, exists g', prim_elem i v ds2 = Ok (Some g', ds2) /\ sc_equiv g' a) l vs ->
  lookup (fi_snake i) attrs2 = Some (VList (TyPrim (fi_tk i)) false false (Some vs)) ->
  gfield tgt (fi_name i) = Ok prior ->
  exists tgt' l',
    from_field hook_from (Field i om) (Some attrs2) (tgt, ds2) = Ok (tgt', ds2)
    /\ gfield tgt' (fi_name i) = Ok (GSlice (Some l'))
    /\ (forall n', n' <> fi_name i -> gfield tgt' n' = gfield tgt n')
    /\ List.length l' = List.length l
    /\ Forall2 sc_equiv l' l.
Proof.
  intros (K & _ & P & V & _) Qs L G.
  rewrite (from_field_list_eq hook_from i om attrs2 tgt ds2 V P _ _ _ _ (or_introl K) L).
  rewrite K. cbv beta iota. cbn [olist known negb andb].
  assert (Q2 : Forall2 (fun a v => exists g', prim_elem i v ds2 = Ok (Some g', ds2) /\ sc_equiv g' a) l vs).
  { eapply Forall2_impl; [|exact Qs]. intros a v H. exact (H ds2). }
  destruct (from_list_fold _ _ (zero_of_prim i) ds2 _ _ Q2 []) as (gl & Eg & Rg). cbv beta in Eg.
  rewrite Eg. cbn [bind app].
  destruct (gset_frame tgt (fi_name i) prior (GSlice (Some gl)) G) as (tgt' & E & S & O).
  rewrite E. cbn [bind]. exists tgt', gl. split; [reflexivity|]. split; [exact S|]. split; [exact O|].
  split; [exact (Forall2_length _ _ _ Rg)|exact Rg].
Qed.

Lemma list_round_trip_gen hook_to hook_from i om obj atys attrs ds l :
  repeated_scalar i ->
  gfield obj (fi_name i) = Ok (GSlice (Some l)) -> l <> [] ->
  Forall (casts_back (fi_cast i)) l ->
  lookup (fi_snake i) atys = Some (TyList (TyPrim (fi_tk i))) ->
  lookup (fi_snake i) attrs = None ->
  list_round_trip hook_to hook_from i om obj atys attrs ds l.
Proof.
  intros RS G NE Sl La Lc. pose proof RS as (K & VE). pose proof VE as (O & P & V & _).
  unfold list_round_trip.
  rewrite to_field_eq. cbv zeta. rewrite La, Lc, K, (read_source_plain i _ obj V P O), G. cbn [bind].
  assert (HF : Forall (fun a => exists v,
              (fun a d => to_prim_value i (Ok a) obj (TyPrim (fi_tk i)) None d) a ds = Ok (v, ds)
              /\ (fun a v => elem_written i a v
                             /\ forall ds2, exists g', prim_elem i v ds2 = Ok (Some g', ds2)
                                                       /\ sc_equiv g' a) a v) l).
  { eapply Forall_impl; [|exact Sl]. intros a Sa. cbv beta.
    destruct (elem_round_trip i a obj ds VE Sa) as (v & E & W & R). eauto. }
  destruct (to_list_fold _ _ ds l HF []) as (vs & Ef & Qs). cbv beta in Ef. cbn [app] in Ef.
  cbv beta iota zeta. rewrite Ef. cbn [bind].
  assert (LT : Nat.ltb 0 (List.length l) = true) by (destruct l; [congruence|reflexivity]).
  rewrite LT.
  do 2 eexists. split; [reflexivity|]. split; [apply lookup_update_eq|].
  split; [intros k D; now apply lookup_update_neq|].
  split; [symmetry; exact (Forall2_length _ _ _ Qs)|].
  split; [eapply Forall2_impl; [|exact Qs]; intros a v H; exact (proj1 H)|].
  intros tgt prior ds2 Gt.
  apply (list_read_back hook_from i om l vs _ tgt prior ds2 RS); [|apply lookup_update_eq|exact Gt].
  eapply Forall2_impl; [|exact Qs]. intros a v H. exact (proj2 H).
Qed.

(* C19, repeated scalar: every scalar type of the generator but float32 (int32, int64, uint32,
   uint64, enum, duration, float64, bool, string, bytes, time), the whole range of the Go type *)
Theorem C19_list_round_trip hook_to hook_from i om obj atys attrs ds l :
  repeated_scalar i -> fi_cast i <> GsFloat32 ->
  gfield obj (fi_name i) = Ok (GSlice (Some l)) -> l <> [] ->
  Forall (scalar_val (fi_cast i)) l ->
  lookup (fi_snake i) atys = Some (TyList (TyPrim (fi_tk i))) ->
  lookup (fi_snake i) attrs = None ->
  list_round_trip hook_to hook_from i om obj atys attrs ds l.
Proof.
  intros RS NF G NE Sl La Lc. apply list_round_trip_gen; auto.
  eapply Forall_impl; [|exact Sl]. intros a. now apply casts_back_nofloat.
Qed.

Print Assumptions C19_list_round_trip.

(* ... and every scalar type, float32 included (a valid binary32 which is no NaN): the narrowing
   of the widened value is exact, Proofs/Floats.v *)
Theorem C19_list_round_trip_float32 hook_to hook_from i om obj atys attrs ds l :
  repeated_scalar i ->
  gfield obj (fi_name i) = Ok (GSlice (Some l)) -> l <> [] ->
  Forall (scalar_val (fi_cast i)) l ->
  lookup (fi_snake i) atys = Some (TyList (TyPrim (fi_tk i))) ->
  lookup (fi_snake i) attrs = None ->
  list_round_trip hook_to hook_from i om obj atys attrs ds l.
Proof.
  intros RS G NE Sl La Lc. apply list_round_trip_gen; auto.
  eapply Forall_impl; [|exact Sl]. intros a. now apply casts_back_any.
Qed.

Print Assumptions C19_list_round_trip_float32.

(* a list of n > 0 zeros: the attribute is a non-null list of n elements (all of them null when the
   element type has a zero literal and the generator's zero test is on), and n zeros come back.
   Every scalar type, float32 included; closed. *)
Theorem C19_list_all_zero_survives hook_to hook_from i om obj atys attrs ds n :
  repeated_scalar i -> (0 < n)%nat ->
  gfield obj (fi_name i) = Ok (GSlice (Some (repeat (zero_scalar (fi_cast i)) n))) ->
  lookup (fi_snake i) atys = Some (TyList (TyPrim (fi_tk i))) ->
  lookup (fi_snake i) attrs = None ->
  exists attrs' vs,
    to_field hook_to (Field i om) obj atys (attrs, ds) = Ok (attrs', ds)
    /\ lookup (fi_snake i) attrs' = Some (VList (TyPrim (fi_tk i)) false false (Some vs))
    /\ List.length vs = n
    /\ (fi_zero i = true -> zero_lit (fi_cast i) = true ->
        Forall (fun v => exists p, v = VPrim (fi_tk i) true false p) vs)
    /\ forall tgt prior ds2,
         gfield tgt (fi_name i) = Ok prior ->
         exists tgt' l',
           from_field hook_from (Field i om) (Some attrs') (tgt, ds2) = Ok (tgt', ds2)
           /\ gfield tgt' (fi_name i) = Ok (GSlice (Some l'))
           /\ List.length l' = n /\ l' <> []
           /\ Forall (fun g => sc_equiv g (zero_scalar (fi_cast i))) l'.
Proof.
  intros RS N G La Lc.
  assert (NE : repeat (zero_scalar (fi_cast i)) n <> []) by (destruct n; [lia|discriminate]).
  assert (Sl : Forall (casts_back (fi_cast i)) (repeat (zero_scalar (fi_cast i)) n)).
  { apply Forall_forall. intros x I. apply repeat_spec in I. subst x. apply casts_back_zero. }
  destruct (list_round_trip_gen hook_to hook_from i om obj atys attrs ds _ RS G NE Sl La Lc)
    as (attrs' & vs & T & L & _ & Len & W & R).
  rewrite repeat_length in Len.
  exists attrs', vs. split; [exact T|]. split; [exact L|]. split; [exact Len|]. split.
  - intros Z ZL. clear - W Z ZL.
    remember (repeat (zero_scalar (fi_cast i)) n) as zs eqn:Ez.
    assert (Az : Forall (fun a => a = zero_scalar (fi_cast i)) zs).
    { subst zs. apply Forall_forall. intros x I. now apply repeat_spec in I. }
    clear Ez. induction W as [|a v zs vs (nl & p & -> & _ & B) _ IH]; constructor.
    + inversion Az; subst. exists p. now rewrite (B Z ZL eq_refl).
    + apply IH. now inversion Az.
  - intros tgt prior ds2 Gt. destruct (R tgt prior ds2 Gt) as (tgt' & l' & F & S & _ & Len' & E).
    rewrite repeat_length in Len'.
    exists tgt', l'. split; [exact F|]. split; [exact S|]. split; [exact Len'|].
    split; [destruct l'; [cbn in Len'; lia|discriminate]|].
    clear - E. remember (repeat (zero_scalar (fi_cast i)) n) as zs eqn:Ez.
    assert (Az : Forall (fun a => a = zero_scalar (fi_cast i)) zs).
    { subst zs. apply Forall_forall. intros x I. now apply repeat_spec in I. }
    clear Ez. induction E as [|g a l' zs H _ IH]; constructor.
    + inversion Az; subst. exact H.
    + apply IH. now inversion Az.
Qed.

Print Assumptions C19_list_all_zero_survives.

(* nil and the empty slice: both are written as the NULL list without elements, and both come back
   as the EMPTY, non-nil slice (the generated code assigns make([]T, 0) resp. the slice it has
   built; C19 identifies nil and empty).  No condition on the element type. *)
Theorem C19_list_empty hook_to hook_from i om obj atys attrs ds o :
  fi_kind i = PrimitiveListKind -> fi_oneof i = None -> fi_parent i = None -> fi_via i = [] ->
  o = None \/ o = Some [] ->
  gfield obj (fi_name i) = Ok (GSlice o) ->
  lookup (fi_snake i) atys = Some (TyList (TyPrim (fi_tk i))) ->
  lookup (fi_snake i) attrs = None ->
  exists attrs',
    to_field hook_to (Field i om) obj atys (attrs, ds) = Ok (attrs', ds)
    /\ lookup (fi_snake i) attrs' = Some (VList (TyPrim (fi_tk i)) true false (Some []))
    /\ forall tgt prior ds2,
         gfield tgt (fi_name i) = Ok prior ->
         exists tgt',
           from_field hook_from (Field i om) (Some attrs') (tgt, ds2) = Ok (tgt', ds2)
           /\ gfield tgt' (fi_name i) = Ok (GSlice (Some []))
           /\ (forall n', n' <> fi_name i -> gfield tgt' n' = gfield tgt n').
Proof.
  intros K O P V Eo G La Lc.
  rewrite to_field_eq. cbv zeta. rewrite La, Lc, K, (read_source_plain i _ obj V P O), G. cbn [bind].
  assert (T : exists attrs',
             attrs' = update (fi_snake i) (VList (TyPrim (fi_tk i)) true false (Some [])) attrs
             /\ lookup (fi_snake i) attrs' = Some (VList (TyPrim (fi_tk i)) true false (Some []))).
  { eexists. split; [reflexivity|apply lookup_update_eq]. }
  destruct T as (attrs' & Ea & L).
  exists attrs'. split; [destruct Eo as [-> | ->]; subst attrs'; reflexivity|]. split; [exact L|].
  intros tgt prior ds2 Gt. unfold attrs_t.
  rewrite (from_field_list_eq hook_from i om attrs' tgt ds2 V P _ _ _ _ (or_introl K) L).
  cbn [known negb andb bind].
  destruct (gset_frame tgt (fi_name i) prior (GSlice (Some [])) Gt) as (tgt' & E & S & Ot).
  rewrite E. cbn [bind]. exists tgt'. auto.
Qed.

Print Assumptions C19_list_empty.

(* ------------------------------------------------------------------------------------- *)
(* 4. maps *)

(* Go maps are association lists in the model (Base/AList.v): lookup returns the first entry of a
   key, update replaces in place or appends.  CopyTo builds the attribute with update from the
   empty map in the order of the source, CopyFrom builds the Go map with update from the empty map
   in the order of the attribute.  For a source without repeated keys (every Go map) both loops
   append, so the order of the source is preserved by the model and the statement below is the
   strongest one: the entries come back in the same order, key by key.  The order-free reading
   (same set of keys, lookups agree for every key) follows and is part of the conclusion.  For a
   source with a repeated key (not a Go map) the last entry wins on the way out whereas lookup
   reads the first: see map_dup_keys_not_a_go_map. *)
Definition entry_equiv (x y : string * goval) : Prop := fst x = fst y /\ sc_equiv (snd x) (snd y).

Definition lookup_equiv (l' l : list (string * goval)) : Prop :=
  forall k, match lookup k l', lookup k l with
            | Some a, Some b => sc_equiv a b
            | None, None => True
            | _, _ => False
            end.

Lemma entries_lookup_equiv l' l : Forall2 entry_equiv l' l -> keys l' = keys l /\ lookup_equiv l' l.
Proof.
  induction 1 as [|[k' a] [k b] r' r [Ek Ev] _ [IHk IHl]].
  - split; [reflexivity|]. intros k. exact I.
  - cbn [fst snd] in Ek, Ev. subst k'. split.
    + unfold keys in *. cbn [map fst]. now rewrite IHk.
    + intros k0. cbn [lookup]. destruct (String.eqb k0 k); [exact Ev|apply IHl].
Qed.

Definition map_round_trip (hook_to : hook_to_t) (hook_from : hook_from_t) (i : finfo) (om : option message)
           (obj : goval) (atys : list (string * tfty)) (attrs : attrs_t) (ds : list diag)
           (l : list (string * goval)) : Prop :=
  exists attrs' es,
    to_field hook_to (Field i om) obj atys (attrs, ds) = Ok (attrs', ds)
    (* a NON-NULL, known map ... *)
    /\ lookup (fi_snake i) attrs' = Some (VMap (TyPrim (fi_tk i)) false false (Some es))
    /\ (forall k, k <> fi_snake i -> lookup k attrs' = lookup k attrs)
    (* ... with exactly the keys of the source, in the order of the source *)
    /\ keys es = keys l
    /\ Forall2 (fun ka kv => fst ka = fst kv /\ elem_written i (snd ka) (snd kv)) l es
    /\ forall tgt prior ds2,
         gfield tgt (fi_name i) = Ok prior ->
         exists tgt' l',
           from_field hook_from (Field i om) (Some attrs') (tgt, ds2) = Ok (tgt', ds2)
           /\ gfield tgt' (fi_name i) = Ok (GMap (Some l'))
           /\ (forall n', n' <> fi_name i -> gfield tgt' n' = gfield tgt n')
           (* entry by entry, in the order of the model ... *)
           /\ Forall2 entry_equiv l' l
           (* ... and read as a map: the same keys, no repeated key, equal lookups *)
           /\ keys l' = keys l /\ NoDup (keys l') /\ lookup_equiv l' l.

Lemma map_round_trip_gen hook_to hook_from i om obj atys attrs ds l :
  map_of_scalars i ->
  gfield obj (fi_name i) = Ok (GMap (Some l)) -> l <> [] -> NoDup (keys l) ->
  Forall (fun ka => casts_back (fi_cast i) (snd ka)) l ->
  lookup (fi_snake i) atys = Some (TyMap (TyPrim (fi_tk i))) ->
  lookup (fi_snake i) attrs = None ->
  map_round_trip hook_to hook_from i om obj atys attrs ds l.
Proof.
  intros (K & VE) G NE ND Sl La Lc. pose proof VE as (O & P & V & _).
  unfold map_round_trip.
  rewrite to_field_eq. cbv zeta. rewrite La, Lc, K, (read_source_plain i _ obj V P O), G. cbn [bind].
  assert (HF : Forall (fun ka : string * goval => exists v,
              (fun ka d => to_prim_value i (Ok (snd ka)) obj (TyPrim (fi_tk i)) None d) ka ds = Ok (v, ds)
              /\ (fun a v => elem_written i a v
                             /\ forall ds2, exists g', prim_elem i v ds2 = Ok (Some g', ds2)
                                                       /\ sc_equiv g' a) (snd ka) v) l).
  { eapply Forall_impl; [|exact Sl]. intros ka Sa. cbv beta.
    destruct (elem_round_trip i (snd ka) obj ds VE Sa) as (v & E & W & R). eauto. }
  destruct (to_map_fold _ _ ds l HF [] ND) as (es & Ef & Qs). cbv beta in Ef. cbn [app] in Ef.
  cbv beta iota zeta. rewrite Ef. cbn [bind].
  assert (NL : match l with [] => true | _ :: _ => false end = false) by (destruct l; [congruence|reflexivity]).
  rewrite NL.
  assert (KE : keys es = keys l).
  { clear - Qs. unfold keys. induction Qs as [|ka kv r es [E _] _ IH]; [reflexivity|].
    cbn [map]. now rewrite IH, E. }
  do 2 eexists. split; [reflexivity|]. split; [apply lookup_update_eq|].
  split; [intros k D; now apply lookup_update_neq|].
  split; [exact KE|].
  split; [eapply Forall2_impl; [|exact Qs]; intros a v [H1 H2]; split; [exact H1|exact (proj1 H2)]|].
  intros tgt prior ds2 Gt.
  rewrite (from_field_map_eq hook_from i om _ tgt ds2 V P _ _ _ _ (or_introl K) (lookup_update_eq _ _ _)).
  rewrite K. cbv beta iota. cbn [olist known negb andb].
  assert (Q2 : Forall2 (fun (ka : string * goval) (kv : string * tfval) => fst ka = fst kv /\ exists g',
                 (fun kv d => prim_elem i (snd kv) d) kv ds2 = Ok (Some g', ds2)
                 /\ sc_equiv g' (snd ka)) l es).
  { eapply Forall2_impl; [|exact Qs]. intros a v [H1 [_ H2]]. split; [exact H1|]. exact (H2 ds2). }
  destruct (from_map_fold _ _ ds2 _ _ Q2 [] ND) as (gl & Eg & Rg). cbv beta in Eg.
  rewrite Eg. cbn [bind app].
  destruct (gset_frame tgt (fi_name i) prior (GMap (Some gl)) Gt) as (tgt' & E & S & Ot).
  rewrite E. cbn [bind]. exists tgt', gl. split; [reflexivity|]. split; [exact S|]. split; [exact Ot|].
  split; [exact Rg|]. destruct (entries_lookup_equiv _ _ Rg) as [Kg Lg].
  split; [exact Kg|]. split; [rewrite Kg; exact ND|exact Lg].
Qed.

(* C19, map<string, scalar>: every scalar value type but float32; the source has no repeated key *)
Theorem C19_map_round_trip hook_to hook_from i om obj atys attrs ds l :
  map_of_scalars i -> fi_cast i <> GsFloat32 ->
  gfield obj (fi_name i) = Ok (GMap (Some l)) -> l <> [] -> NoDup (keys l) ->
  Forall (fun ka => scalar_val (fi_cast i) (snd ka)) l ->
  lookup (fi_snake i) atys = Some (TyMap (TyPrim (fi_tk i))) ->
  lookup (fi_snake i) attrs = None ->
  map_round_trip hook_to hook_from i om obj atys attrs ds l.
Proof.
  intros MS NF G NE ND Sl La Lc. apply map_round_trip_gen; auto.
  eapply Forall_impl; [|exact Sl]. intros a. now apply casts_back_nofloat.
Qed.

Print Assumptions C19_map_round_trip.

Theorem C19_map_round_trip_float32 hook_to hook_from i om obj atys attrs ds l :
  map_of_scalars i ->
  gfield obj (fi_name i) = Ok (GMap (Some l)) -> l <> [] -> NoDup (keys l) ->
  Forall (fun ka => scalar_val (fi_cast i) (snd ka)) l ->
  lookup (fi_snake i) atys = Some (TyMap (TyPrim (fi_tk i))) ->
  lookup (fi_snake i) attrs = None ->
  map_round_trip hook_to hook_from i om obj atys attrs ds l.
Proof.
  intros MS G NE ND Sl La Lc. apply map_round_trip_gen; auto.
  eapply Forall_impl; [|exact Sl]. intros a. now apply casts_back_any.
Qed.

Print Assumptions C19_map_round_trip_float32.

(* a map all of whose values are the zero value keeps all its keys.  Every scalar type; closed *)
Theorem C19_map_all_zero_survives hook_to hook_from i om obj atys attrs ds l :
  map_of_scalars i ->
  gfield obj (fi_name i) = Ok (GMap (Some l)) -> l <> [] -> NoDup (keys l) ->
  Forall (fun ka => snd ka = zero_scalar (fi_cast i)) l ->
  lookup (fi_snake i) atys = Some (TyMap (TyPrim (fi_tk i))) ->
  lookup (fi_snake i) attrs = None ->
  map_round_trip hook_to hook_from i om obj atys attrs ds l.
Proof.
  intros MS G NE ND Sl La Lc. apply map_round_trip_gen; auto.
  eapply Forall_impl; [|exact Sl]. intros a E. cbv beta in E. rewrite E. apply casts_back_zero.
Qed.

Print Assumptions C19_map_all_zero_survives.

(* nil and the empty map: both are written as the NULL map without entries and both come back as
   the EMPTY, non-nil map *)
Theorem C19_map_empty hook_to hook_from i om obj atys attrs ds o :
  fi_kind i = PrimitiveMapKind -> fi_oneof i = None -> fi_parent i = None -> fi_via i = [] ->
  o = None \/ o = Some [] ->
  gfield obj (fi_name i) = Ok (GMap o) ->
  lookup (fi_snake i) atys = Some (TyMap (TyPrim (fi_tk i))) ->
  lookup (fi_snake i) attrs = None ->
  exists attrs',
    to_field hook_to (Field i om) obj atys (attrs, ds) = Ok (attrs', ds)
    /\ lookup (fi_snake i) attrs' = Some (VMap (TyPrim (fi_tk i)) true false (Some []))
    /\ forall tgt prior ds2,
         gfield tgt (fi_name i) = Ok prior ->
         exists tgt',
           from_field hook_from (Field i om) (Some attrs') (tgt, ds2) = Ok (tgt', ds2)
           /\ gfield tgt' (fi_name i) = Ok (GMap (Some []))
           /\ (forall n', n' <> fi_name i -> gfield tgt' n' = gfield tgt n').
Proof.
  intros K O P V Eo G La Lc.
  rewrite to_field_eq. cbv zeta. rewrite La, Lc, K, (read_source_plain i _ obj V P O), G. cbn [bind].
  assert (T : exists attrs',
             attrs' = update (fi_snake i) (VMap (TyPrim (fi_tk i)) true false (Some [])) attrs
             /\ lookup (fi_snake i) attrs' = Some (VMap (TyPrim (fi_tk i)) true false (Some []))).
  { eexists. split; [reflexivity|apply lookup_update_eq]. }
  destruct T as (attrs' & Ea & L).
  exists attrs'. split; [destruct Eo as [-> | ->]; subst attrs'; reflexivity|]. split; [exact L|].
  intros tgt prior ds2 Gt. unfold attrs_t.
  rewrite (from_field_map_eq hook_from i om attrs' tgt ds2 V P _ _ _ _ (or_introl K) L).
  cbn [known negb andb bind].
  destruct (gset_frame tgt (fi_name i) prior (GMap (Some [])) Gt) as (tgt' & E & S & Ot).
  rewrite E. cbn [bind]. exists tgt'. auto.
Qed.

Print Assumptions C19_map_empty.

(* ------------------------------------------------------------------------------------- *)
(* 5. examples, by computation *)

Module Examples.
  Local Open Scope string_scope.
  Local Open Scope Z_scope.

  Definition mk (name snake : string) (k : kind) (tk : tfkind) (c : goscalar) (zero : bool) : finfo :=
    {| fi_name := name; fi_snake := snake; fi_path := snake; fi_kind := k; fi_tk := tk; fi_cast := c;
       fi_nullable := false; fi_zero := zero; fi_placeholder := false; fi_oneof := None; fi_via := [];
       fi_parent := None; fi_inner := []; fi_required := false; fi_computed := false; fi_sensitive := false;
       fi_validators := []; fi_planmods := []; fi_comment := ""; fi_suffix := "" |}.

  (* CopyTo of the struct {F: src, Other: 1} into the empty object, then CopyFrom of the result
     into a struct whose field holds [prior] *)
  Definition there (i : finfo) (t : tfty) (src : goval) : res tstate :=
    to_field std_hook_to (Field i None)
             (GStruct [("F", src); ("Other", GPrim (PInt 1))]) [("f", t)] ([], []).
  Definition back (i : finfo) (a : tfval) (prior : goval) : res fstate :=
    from_field std_hook_from (Field i None) (Some [("f", a)])
               (GStruct [("F", prior); ("Other", GPrim (PInt 1))], []).

  (* repeated int64 [0]: a non-null list holding one null element; [0] comes back, over a target
     which held [7; 8] *)
  Definition f_i64 := mk "F" "f" PrimitiveListKind KI64 GsInt64 true.
  Example repeated_int64_zero :
    repeated_scalar f_i64
    /\ there f_i64 (TyList (TyPrim KI64)) (GSlice (Some [GPrim (PInt 0)]))
       = Ok ([("f", VList (TyPrim KI64) false false (Some [VPrim KI64 true false (PInt 0)]))], [])
    /\ back f_i64 (VList (TyPrim KI64) false false (Some [VPrim KI64 true false (PInt 0)]))
            (GSlice (Some [GPrim (PInt 7); GPrim (PInt 8)]))
       = Ok (GStruct [("F", GSlice (Some [GPrim (PInt 0)])); ("Other", GPrim (PInt 1))], []).
  Proof. split; [unfold repeated_scalar, value_elems; repeat split|split; vm_compute; reflexivity]. Qed.

  (* repeated bool [false; false] *)
  Definition f_bool := mk "F" "f" PrimitiveListKind KBool GsBool true.
  Example repeated_bool_false_false :
    there f_bool (TyList (TyPrim KBool)) (GSlice (Some [GPrim (PBool false); GPrim (PBool false)]))
    = Ok ([("f", VList (TyPrim KBool) false false
                       (Some [VPrim KBool true false (PBool false); VPrim KBool true false (PBool false)]))], [])
    /\ back f_bool (VList (TyPrim KBool) false false
                          (Some [VPrim KBool true false (PBool false); VPrim KBool true false (PBool false)]))
            (GSlice None)
       = Ok (GStruct [("F", GSlice (Some [GPrim (PBool false); GPrim (PBool false)])); ("Other", GPrim (PInt 1))], []).
  Proof. split; vm_compute; reflexivity. Qed.

  (* repeated string [""] *)
  Definition f_str := mk "F" "f" PrimitiveListKind KStr GsString true.
  Example repeated_string_empty :
    there f_str (TyList (TyPrim KStr)) (GSlice (Some [GPrim (PStr "")]))
    = Ok ([("f", VList (TyPrim KStr) false false (Some [VPrim KStr true false (PStr "")]))], [])
    /\ back f_str (VList (TyPrim KStr) false false (Some [VPrim KStr true false (PStr "")])) (GSlice None)
       = Ok (GStruct [("F", GSlice (Some [GPrim (PStr "")])); ("Other", GPrim (PInt 1))], []).
  Proof. split; vm_compute; reflexivity. Qed.

  (* a mixed list: zeros among other values keep their positions; uint64 at the top of its range *)
  Definition f_u64 := mk "F" "f" PrimitiveListKind KI64 GsUint64 true.
  Example repeated_uint64_mixed :
    there f_u64 (TyList (TyPrim KI64)) (GSlice (Some [GPrim (PInt 0); GPrim (PInt (2 ^ 64 - 1)); GPrim (PInt 0)]))
    = Ok ([("f", VList (TyPrim KI64) false false
                       (Some [VPrim KI64 true false (PInt 0); VPrim KI64 false false (PInt (-1));
                              VPrim KI64 true false (PInt 0)]))], [])
    /\ back f_u64 (VList (TyPrim KI64) false false
                         (Some [VPrim KI64 true false (PInt 0); VPrim KI64 false false (PInt (-1));
                                VPrim KI64 true false (PInt 0)])) (GSlice None)
       = Ok (GStruct [("F", GSlice (Some [GPrim (PInt 0); GPrim (PInt 18446744073709551615); GPrim (PInt 0)]));
                      ("Other", GPrim (PInt 1))], []).
  Proof. split; vm_compute; reflexivity. Qed.

  (* map<string, int32> {"a": 0, "b": 5}: the generator does not emit the zero test for map values
     (fi_zero = false), the zero value is written as a known 0; with the zero test on (f_map_z) it
     is written null under a non-null map; the key survives either way *)
  Definition f_map := mk "F" "f" PrimitiveMapKind KI64 GsInt32 false.
  Definition f_map_z := mk "F" "f" PrimitiveMapKind KI64 GsInt32 true.
  Example map_zero_value :
    map_of_scalars f_map
    /\ there f_map (TyMap (TyPrim KI64)) (GMap (Some [("a", GPrim (PInt 0)); ("b", GPrim (PInt 5))]))
       = Ok ([("f", VMap (TyPrim KI64) false false
                         (Some [("a", VPrim KI64 false false (PInt 0)); ("b", VPrim KI64 false false (PInt 5))]))], [])
    /\ back f_map (VMap (TyPrim KI64) false false
                        (Some [("a", VPrim KI64 false false (PInt 0)); ("b", VPrim KI64 false false (PInt 5))]))
            (GMap (Some [("zz", GPrim (PInt 9))]))
       = Ok (GStruct [("F", GMap (Some [("a", GPrim (PInt 0)); ("b", GPrim (PInt 5))])); ("Other", GPrim (PInt 1))], []).
  Proof. split; [unfold map_of_scalars, value_elems; repeat split|split; vm_compute; reflexivity]. Qed.

  Example map_zero_value_null_entry :
    there f_map_z (TyMap (TyPrim KI64)) (GMap (Some [("a", GPrim (PInt 0))]))
    = Ok ([("f", VMap (TyPrim KI64) false false (Some [("a", VPrim KI64 true false (PInt 0))]))], [])
    /\ back f_map_z (VMap (TyPrim KI64) false false (Some [("a", VPrim KI64 true false (PInt 0))])) (GMap None)
       = Ok (GStruct [("F", GMap (Some [("a", GPrim (PInt 0))])); ("Other", GPrim (PInt 1))], []).
  Proof. split; vm_compute; reflexivity. Qed.

  (* nil and empty: written null, read back empty *)
  Example repeated_nil_and_empty :
    there f_i64 (TyList (TyPrim KI64)) (GSlice None)
    = Ok ([("f", VList (TyPrim KI64) true false (Some []))], [])
    /\ there f_i64 (TyList (TyPrim KI64)) (GSlice (Some []))
       = Ok ([("f", VList (TyPrim KI64) true false (Some []))], [])
    /\ back f_i64 (VList (TyPrim KI64) true false (Some [])) (GSlice (Some [GPrim (PInt 7)]))
       = Ok (GStruct [("F", GSlice (Some [])); ("Other", GPrim (PInt 1))], []).
  Proof. repeat split; vm_compute; reflexivity. Qed.

  (* why the null flag of the list matters: the very elements of repeated_int64_zero under a list
     marked NULL (what a generator marking a list null "when all its elements are null" would
     write) are not read at all, the field comes back empty *)
  Example null_list_loses_elements :
    back f_i64 (VList (TyPrim KI64) true false (Some [VPrim KI64 true false (PInt 0)]))
         (GSlice (Some [GPrim (PInt 7); GPrim (PInt 8)]))
    = Ok (GStruct [("F", GSlice (Some [])); ("Other", GPrim (PInt 1))], []).
  Proof. vm_compute. reflexivity. Qed.

  (* why C19_map_round_trip asks for a source without repeated keys: an association list with a
     repeated key is not a Go map; lookup reads its first entry, the converters keep the last *)
  Example map_dup_keys_not_a_go_map :
    let src := [("a", GPrim (PInt 1)); ("a", GPrim (PInt 2))] in
    lookup "a" src = Some (GPrim (PInt 1))
    /\ there f_map (TyMap (TyPrim KI64)) (GMap (Some src))
       = Ok ([("f", VMap (TyPrim KI64) false false (Some [("a", VPrim KI64 false false (PInt 2))]))], []).
  Proof. split; vm_compute; reflexivity. Qed.
End Examples.
