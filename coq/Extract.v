(* Extraction of the executable model (ExtrOcamlBasic only: bool, option, list, prod, unit,
   sumbool map to OCaml's own; Z, positive, N, nat, string and ascii stay extracted inductives;
   no Extract Constant). *)
From Coq Require Import Extraction ExtrOcamlBasic.
From Coq Require Import List String ZArith.
From PGT Require Import Base.Strs Base.AList Model.Vals Model.IR Model.Names Model.Desc Model.Build
     Model.CopyTo Model.CopyFrom Model.Schema Model.GoTypes.
(* the classes the partial theorems are stated for, evaluated on every root of the corpus (coverage report) *)
From PGT Require Import Proofs.CopyFromProofs Proofs.CopyToTotal Proofs.MsgRoundTrip Proofs.MsgEcho Proofs.EmbeddedProofs Proofs.MsgEchoOneof Proofs.CustomProofs Proofs.ChainProofs Proofs.RoundTripEmbedded.

Definition model_copy_to := copy_to std_hook_to.
Definition model_copy_from := copy_from std_hook_from.
Definition model_schema_attrs := schema_attrs std_hook_schema.
Definition model_schema_ty := schema_ty std_hook_schema.

Extraction Language OCaml.
Extraction "model.ml" run model_copy_to model_copy_from model_schema_attrs model_schema_ty
  sf32_of_bits sf64_of_bits bits_of_sf32 bits_of_sf64 empty_config
  Z.add Z.mul Z.opp Z.of_nat Z.to_nat Z.compare Z.div Z.modulo Z.eqb Z.ltb
  str_ltb snake_case upper_camel go_name to_single_line json_name
  run_iops replace_package_name tf_ok flat_ok rt_ok echo_class echo_class2 emb_ok tfc_ok embc_ok rte_ok.
