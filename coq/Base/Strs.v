(* ASCII string utilities modelling the Go string functions the generator uses. *)
From Coq Require Import List String Ascii Bool Arith NArith ZArith Lia.
Import ListNotations.
Local Open Scope string_scope.

Definition ascii_eqb := Ascii.eqb.

Definition code (c : ascii) : N := N_of_ascii c.

Definition is_lower (c : ascii) : bool := (97 <=? code c)%N && (code c <=? 122)%N.
Definition is_upper (c : ascii) : bool := (65 <=? code c)%N && (code c <=? 90)%N.
Definition is_digit (c : ascii) : bool := (48 <=? code c)%N && (code c <=? 57)%N.

Definition to_lower (c : ascii) : ascii := if is_upper c then ascii_of_N (code c + 32) else c.
Definition to_upper (c : ascii) : ascii := if is_lower c then ascii_of_N (code c - 32) else c.

(* ASCII white space as strings.TrimSpace sees it on ASCII input: \t \n \v \f \r and blank *)
Definition is_space (c : ascii) : bool :=
  let n := code c in ((9 <=? n)%N && (n <=? 13)%N) || (n =? 32)%N.

Fixpoint map_str (f : ascii -> ascii) (s : string) : string :=
  match s with EmptyString => EmptyString | String c r => String (f c) (map_str f r) end.

Definition lower_str := map_str to_lower.

Fixpoint rev_str_aux (s acc : string) : string :=
  match s with EmptyString => acc | String c r => rev_str_aux r (String c acc) end.
Definition rev_str (s : string) := rev_str_aux s EmptyString.

Fixpoint drop_while (p : ascii -> bool) (s : string) : string :=
  match s with
  | EmptyString => EmptyString
  | String c r => if p c then drop_while p r else s
  end.

Definition trim_left (p : ascii -> bool) (s : string) := drop_while p s.
Definition trim_right (p : ascii -> bool) (s : string) := rev_str (drop_while p (rev_str s)).
Definition trim (p : ascii -> bool) (s : string) := trim_right p (trim_left p s).

(* strings.TrimSpace *)
Definition trim_space (s : string) : string := trim is_space s.
(* strings.Trim(s, "\n") *)
Definition is_nl (c : ascii) : bool := (code c =? 10)%N.
Definition trim_nl (s : string) : string := trim is_nl s.

(* strings.Split(s, sep) for a one-character separator: always at least one element *)
Fixpoint split_on_aux (sep : ascii) (s cur : string) : list string :=
  match s with
  | EmptyString => [rev_str cur]
  | String c r => if ascii_eqb c sep then rev_str cur :: split_on_aux sep r EmptyString
                  else split_on_aux sep r (String c cur)
  end.
Definition split_on (sep : ascii) (s : string) : list string := split_on_aux sep s EmptyString.

Fixpoint join (sep : string) (l : list string) : string :=
  match l with
  | [] => EmptyString
  | [x] => x
  | x :: r => x ++ sep ++ join sep r
  end.

Fixpoint contains_char (c : ascii) (s : string) : bool :=
  match s with EmptyString => false | String d r => ascii_eqb c d || contains_char c r end.

Fixpoint remove_char (c : ascii) (s : string) : string :=
  match s with
  | EmptyString => EmptyString
  | String d r => if ascii_eqb c d then remove_char c r else String d (remove_char c r)
  end.

(* strings.Index for a one-character needle *)
Fixpoint index_char_aux (c : ascii) (s : string) (i : nat) : option nat :=
  match s with
  | EmptyString => None
  | String d r => if ascii_eqb c d then Some i else index_char_aux c r (S i)
  end.
Definition index_char c s := index_char_aux c s 0.

Fixpoint last_index_char_aux (c : ascii) (s : string) (i : nat) (last : option nat) : option nat :=
  match s with
  | EmptyString => last
  | String d r => last_index_char_aux c r (S i) (if ascii_eqb c d then Some i else last)
  end.
Definition last_index_char c s := last_index_char_aux c s 0 None.

Fixpoint drop (n : nat) (s : string) : string :=
  match n, s with
  | O, _ => s
  | S k, EmptyString => EmptyString
  | S k, String _ r => drop k r
  end.

Fixpoint take (n : nat) (s : string) : string :=
  match n, s with
  | O, _ => EmptyString
  | S k, EmptyString => EmptyString
  | S k, String c r => String c (take k r)
  end.

Fixpoint has_prefix (p s : string) : bool :=
  match p, s with
  | EmptyString, _ => true
  | String a p', String b s' => ascii_eqb a b && has_prefix p' s'
  | _, EmptyString => false
  end.

Definition has_suffix (p s : string) : bool := has_prefix (rev_str p) (rev_str s).

Definition first_char (s : string) : option ascii :=
  match s with EmptyString => None | String c _ => Some c end.

(* byte-wise lexicographic order, as Go compares strings *)
Fixpoint str_ltb (a b : string) : bool :=
  match a, b with
  | EmptyString, EmptyString => false
  | EmptyString, String _ _ => true
  | String _ _, EmptyString => false
  | String x a', String y b' =>
      if (code x <? code y)%N then true
      else if (code y <? code x)%N then false
      else str_ltb a' b'
  end.

Definition str_eqb := String.eqb.

Definition nl : string := String (ascii_of_N 10) EmptyString.

Fixpoint mem_str (x : string) (l : list string) : bool :=
  match l with [] => false | y :: r => str_eqb x y || mem_str x r end.

Lemma mem_str_In x l : mem_str x l = true <-> In x l.
Proof.
  induction l as [|y r IH]; cbn; [split; [discriminate|tauto]|].
  rewrite orb_true_iff, IH. unfold str_eqb. rewrite String.eqb_eq. split; intros [H|H]; auto.
Qed.

(* insertion sort by a key, stable *)
Section Sort.
  Context {A : Type} (key : A -> string).
  Fixpoint insert_by (x : A) (l : list A) : list A :=
    match l with
    | [] => [x]
    | y :: r => if str_ltb (key y) (key x) then y :: insert_by x r else x :: l
    end.
  Definition sort_by (l : list A) : list A := fold_right insert_by [] l.
End Sort.
