(* Association lists keyed by strings: Go maps (struct fields, Terraform attributes,
   configuration maps). *)
From Coq Require Import List String Bool.
Import ListNotations.

Section AList.
  Context {A : Type}.

  Fixpoint lookup (k : string) (l : list (string * A)) : option A :=
    match l with
    | [] => None
    | (k', v) :: r => if String.eqb k k' then Some v else lookup k r
    end.

  (* replace in place when present, append otherwise *)
  Fixpoint update (k : string) (v : A) (l : list (string * A)) : list (string * A) :=
    match l with
    | [] => [(k, v)]
    | (k', v') :: r => if String.eqb k k' then (k, v) :: r else (k', v') :: update k v r
    end.

  Fixpoint remove (k : string) (l : list (string * A)) : list (string * A) :=
    match l with
    | [] => []
    | (k', v') :: r => if String.eqb k k' then remove k r else (k', v') :: remove k r
    end.

  Definition keys (l : list (string * A)) : list string := map fst l.

  Definition has_key (k : string) (l : list (string * A)) : bool :=
    match lookup k l with Some _ => true | None => false end.

  Lemma lookup_update_eq k v l : lookup k (update k v l) = Some v.
  Proof.
    induction l as [|[k' v'] r IH]; cbn.
    - now rewrite String.eqb_refl.
    - destruct (String.eqb k k') eqn:E; cbn; [now rewrite String.eqb_refl| now rewrite E].
  Qed.

  Lemma lookup_update_neq k k' v l : k' <> k -> lookup k' (update k v l) = lookup k' l.
  Proof.
    intros N. induction l as [|[k2 v2] r IH]; cbn.
    - destruct (String.eqb k' k) eqn:E; [apply String.eqb_eq in E; contradiction|reflexivity].
    - destruct (String.eqb k k2) eqn:E.
      + apply String.eqb_eq in E. subst k2. cbn.
        destruct (String.eqb k' k) eqn:E2; [apply String.eqb_eq in E2; contradiction|reflexivity].
      + cbn. destruct (String.eqb k' k2); [reflexivity|exact IH].
  Qed.

  Lemma lookup_In k v l : lookup k l = Some v -> In (k, v) l.
  Proof.
    induction l as [|[k' v'] r IH]; cbn; [discriminate|].
    destruct (String.eqb k k') eqn:E.
    - apply String.eqb_eq in E. intros [= ->]. subst. now left.
    - intros H. right. auto.
  Qed.

  Lemma keys_update_in k v l : In k (keys l) -> keys (update k v l) = keys l.
  Proof.
    induction l as [|[k' v'] r IH]; cbn; [tauto|].
    destruct (String.eqb k k') eqn:E; cbn.
    - apply String.eqb_eq in E. now subst.
    - intros [H|H]; [subst; rewrite String.eqb_refl in E; discriminate|]. unfold keys in IH. now rewrite IH.
  Qed.

  Lemma lookup_None_keys k l : lookup k l = None <-> ~ In k (keys l).
  Proof.
    induction l as [|[k' v'] r IH]; cbn; [tauto|].
    destruct (String.eqb k k') eqn:E.
    - apply String.eqb_eq in E. subst. split; [discriminate|]. intros H. exfalso. apply H. now left.
    - rewrite IH. apply String.eqb_neq in E. split; intros H; [intros [H1|H1]; [congruence|auto]|tauto].
  Qed.
End AList.
