#!/bin/sh
# runs every registered quick check against every seeded change (applied to /repo, undone afterwards)
# and records which checks report a violation:  seeded/<id>/detected.json  and  seeded/MATRIX.txt
cd /verif
: > seeded/MATRIX.txt
for d in seeded/*/; do
  id=$(basename $d)
  [ -f $d/patch.diff ] || continue
  (cd /repo && git apply /verif/$d/patch.diff) || { echo "$id: patch does not apply" >> seeded/MATRIX.txt; continue; }
  hits=""
  for i in $(seq -w 1 20); do
    out=$(./check C$i --tier quick 2>&1)
    if echo "$out" | grep -q "^VIOLATION"; then
      if echo "$out" | grep "^VIOLATION" | grep -q "no-failing-input-found"; then hits="$hits C$i(nfi)"; else hits="$hits C$i"; fi
    fi
  done
  (cd /repo && git checkout -- .)
  echo "$id:$hits" >> seeded/MATRIX.txt
  python3 - "$d" "$hits" <<'PY'
import json,sys
d,h=sys.argv[1],sys.argv[2].split()
json.dump({"violations_reported_by":h,"note":"(nfi) = reported with no-failing-input-found (correspondence or proof gate broken, oracle silent)"},open(d+"/detected.json","w"),indent=1)
PY
done
cat seeded/MATRIX.txt
