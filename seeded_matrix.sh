#!/bin/sh
# runs every registered quick check against seeded changes (each applied to /repo, undone afterwards)
# and records which checks report a violation:  seeded/<id>/detected.json  and  seeded/MATRIX.txt
# usage: seeded_matrix.sh            all changes, rewrites seeded/MATRIX.txt
#        seeded_matrix.sh <id>...    only these; their rows replace / extend those of seeded/MATRIX.txt
cd /verif
: > seeded/MATRIX.new
if [ $# -gt 0 ]; then LIST=""; for i in "$@"; do LIST="$LIST seeded/$i/"; done; else LIST=$(ls -d seeded/*/); fi
for d in $LIST; do
  id=$(basename $d)
  [ -f $d/patch.diff ] || continue
  (cd /repo && git apply /verif/$d/patch.diff) || { echo "$id: patch does not apply" >> seeded/MATRIX.new; continue; }
  rm -rf /tmp/matrix_out; mkdir -p /tmp/matrix_out
  ./check C01 --tier quick > /tmp/matrix_out/C01 2>&1     # prepares the shared run
  seq -w 2 20 | xargs -P 6 -I{} sh -c './check C{} --tier quick > /tmp/matrix_out/C{} 2>&1'
  hits=""
  for i in $(seq -w 1 20); do
    if grep -q "^VIOLATION" /tmp/matrix_out/C$i; then
      if grep "^VIOLATION" /tmp/matrix_out/C$i | grep -q "no-failing-input-found"; then hits="$hits C$i(nfi)"; else hits="$hits C$i"; fi
    fi
  done
  (cd /repo && git checkout -- .)
  echo "$id:$hits" >> seeded/MATRIX.new
  python3 - "$d" "$hits" <<'PY'
import json,sys
d,h=sys.argv[1],sys.argv[2].split()
json.dump({"violations_reported_by":h,"note":"(nfi) = reported with no-failing-input-found (correspondence or proof gate broken, oracle silent)"},open(d+"/detected.json","w"),indent=1)
PY
done
if [ $# -gt 0 ] && [ -f seeded/MATRIX.txt ]; then
  python3 - <<'PY'
rows={}
for fn in ('seeded/MATRIX.txt','seeded/MATRIX.new'):
    for l in open(fn):
        if ':' in l:
            rows[l.split(':',1)[0]]=l.rstrip('\n')
open('seeded/MATRIX.new','w').write('\n'.join(rows[k] for k in sorted(rows))+'\n')
PY
fi
mv seeded/MATRIX.new seeded/MATRIX.txt
rm -rf /tmp/matrix_out
cat seeded/MATRIX.txt
