#!/bin/sh
# extracts the model and builds the model runner; run from /verif/ocaml
set -e
cd "$(dirname "$0")"
timeout 600 coqc -Q ../coq PGT ../coq/Extract.v >/dev/null
timeout 600 ocamlfind ocamlopt -O2 -w -a -package str model.mli model.ml modelrun.ml -o ../bin/modelrun 2>/dev/null || timeout 600 ocamlfind ocamlopt -w -a model.mli model.ml modelrun.ml -o ../bin/modelrun
