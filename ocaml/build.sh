#!/bin/sh
# extracts the model and builds the model runner; run from /verif/ocaml
set -e
cd "$(dirname "$0")"
timeout 600 coqc -Q ${PGT_COQ:-../coq} PGT ${PGT_COQ:-../coq}/Extract.v >/dev/null
timeout 600 ocamlfind ocamlopt -O2 -w -a -package str model.mli model.ml modelrun.ml -o ${PGT_BIN:-../bin}/modelrun 2>/dev/null || timeout 600 ocamlfind ocamlopt -w -a model.mli model.ml modelrun.ml -o ${PGT_BIN:-../bin}/modelrun
