(* Driver around the extracted Rocq model: reads the programs (specs, parameters, YAML
   documents) and the cases the implementation ran, recomputes every result with the model and
   reports the differences. Hand written, trusted (see DESIGN.md, trusted base). *)

module M = Model

(* ------------------------------------------------------------------------------------- *)
(* S-expressions *)

type sx = Atom of string | Str of string | List of sx list

exception Parse_error of string

let parse_sx (s : string) : sx list =
  let n = String.length s in
  let i = ref 0 in
  let rec skip () =
    if !i < n then
      match s.[!i] with
      | ' ' | '\n' | '\t' | '\r' -> incr i; skip ()
      | _ -> () in
  let hexv c =
    match c with
    | '0' .. '9' -> Char.code c - 48
    | 'a' .. 'f' -> Char.code c - 87
    | 'A' .. 'F' -> Char.code c - 55
    | _ -> raise (Parse_error "hex") in
  let rec parse () : sx =
    skip ();
    if !i >= n then raise (Parse_error "eof");
    match s.[!i] with
    | '(' ->
        incr i;
        let items = ref [] in
        let rec loop () =
          skip ();
          if !i >= n then raise (Parse_error "unclosed");
          if s.[!i] = ')' then incr i
          else begin items := parse () :: !items; loop () end in
        loop ();
        List (List.rev !items)
    | '"' ->
        incr i;
        let b = Buffer.create 16 in
        let rec loop () =
          if !i >= n then raise (Parse_error "unclosed string");
          match s.[!i] with
          | '"' -> incr i
          | '\\' ->
              if s.[!i + 1] = 'x' then begin
                Buffer.add_char b (Char.chr (hexv s.[!i + 2] * 16 + hexv s.[!i + 3]));
                i := !i + 4
              end else begin Buffer.add_char b s.[!i + 1]; i := !i + 2 end;
              loop ()
          | c -> Buffer.add_char b c; incr i; loop () in
        loop ();
        Str (Buffer.contents b)
    | _ ->
        let st = !i in
        while !i < n && (match s.[!i] with ' ' | '\n' | '\t' | '\r' | '(' | ')' | '"' -> false | _ -> true) do incr i done;
        Atom (String.sub s st (!i - st)) in
  let out = ref [] in
  let rec all () =
    skip ();
    if !i < n then begin out := parse () :: !out; all () end in
  all ();
  List.rev !out

(* ------------------------------------------------------------------------------------- *)
(* conversions between OCaml and extracted types *)

let ascii_of_char (c : char) : M.ascii =
  let n = Char.code c in
  let b k = (n lsr k) land 1 = 1 in
  M.Ascii (b 0, b 1, b 2, b 3, b 4, b 5, b 6, b 7)

let char_of_ascii (a : M.ascii) : char =
  match a with
  | M.Ascii (b0, b1, b2, b3, b4, b5, b6, b7) ->
      let v b k = if b then 1 lsl k else 0 in
      Char.chr (v b0 0 + v b1 1 + v b2 2 + v b3 3 + v b4 4 + v b5 5 + v b6 6 + v b7 7)

let cstr (s : string) : M.string =
  let r = ref M.EmptyString in
  for k = String.length s - 1 downto 0 do r := M.String (ascii_of_char s.[k], !r) done;
  !r

let ostr (s : M.string) : string =
  let b = Buffer.create 16 in
  let rec go = function M.EmptyString -> () | M.String (c, r) -> Buffer.add_char b (char_of_ascii c); go r in
  go s;
  Buffer.contents b

let rec pos_of_int (n : int) : M.positive =
  if n = 1 then M.XH else if n land 1 = 0 then M.XO (pos_of_int (n lsr 1)) else M.XI (pos_of_int (n lsr 1))

let z_of_int (n : int) : M.z =
  if n = 0 then M.Z0 else if n > 0 then M.Zpos (pos_of_int n) else M.Zneg (pos_of_int (-n))

let z10 = z_of_int 10
let z16 = z_of_int 16

let z_of_digits (base : M.z) (digit : char -> int) (s : string) : M.z =
  let r = ref M.Z0 in
  String.iter (fun c -> r := M.Z.add (M.Z.mul !r base) (z_of_int (digit c))) s;
  !r

let z_of_string (s : string) : M.z =
  let d c = Char.code c - 48 in
  if String.length s > 0 && s.[0] = '-' then M.Z.opp (z_of_digits z10 d (String.sub s 1 (String.length s - 1)))
  else z_of_digits z10 d s

let z_of_hex (s : string) : M.z =
  let d c = match c with '0' .. '9' -> Char.code c - 48 | 'a' .. 'f' -> Char.code c - 87 | _ -> Char.code c - 55 in
  z_of_digits z16 d s

let rec int_of_pos (p : M.positive) : int =
  match p with M.XH -> 1 | M.XO q -> 2 * int_of_pos q | M.XI q -> 2 * int_of_pos q + 1

let small_int_of_z (z : M.z) : int = match z with M.Z0 -> 0 | M.Zpos p -> int_of_pos p | M.Zneg p -> - (int_of_pos p)

let string_of_z_base (base : M.z) (z : M.z) : string =
  let digits = "0123456789abcdef" in
  let neg, a = match z with M.Zneg p -> true, M.Zpos p | _ -> false, z in
  if a = M.Z0 then "0"
  else begin
    let b = Buffer.create 20 in
    let cur = ref a in
    while !cur <> M.Z0 do
      let d = small_int_of_z (M.Z.modulo !cur base) in
      Buffer.add_char b digits.[d];
      cur := M.Z.div !cur base
    done;
    let s = Buffer.contents b in
    let n = String.length s in
    let r = String.init n (fun k -> s.[n - 1 - k]) in
    if neg then "-" ^ r else r
  end

let string_of_z = string_of_z_base z10

let hex_of_z (width : int) (z : M.z) : string =
  let s = string_of_z_base z16 z in
  if String.length s >= width then s else String.make (width - String.length s) '0' ^ s

let rec nat_of_int (n : int) : M.nat = if n <= 0 then M.O else M.S (nat_of_int (n - 1))

(* ------------------------------------------------------------------------------------- *)
(* accessors *)

let fail_sx what sx =
  let rec show = function
    | Atom a -> a
    | Str s -> "\"" ^ String.escaped s ^ "\""
    | List l -> "(" ^ String.concat " " (List.map show l) ^ ")" in
  let s = show sx in
  raise (Parse_error (what ^ ": " ^ (if String.length s > 200 then String.sub s 0 200 else s)))

let atom = function Atom a -> a | Str s -> s | x -> fail_sx "atom expected" x
let items = function List l -> l | x -> fail_sx "list expected" x
let flag x = atom x = "1"
let head = function List (Atom a :: _) -> a | _ -> ""

(* ------------------------------------------------------------------------------------- *)
(* specs *)

let scalar_of = function
  | "double" -> M.SDouble | "float" -> M.SFloat | "int32" -> M.SInt32 | "int64" -> M.SInt64
  | "uint32" -> M.SUint32 | "uint64" -> M.SUint64 | "sint32" -> M.SSint32 | "sint64" -> M.SSint64
  | "fixed32" -> M.SFixed32 | "fixed64" -> M.SFixed64 | "sfixed32" -> M.SSfixed32 | "sfixed64" -> M.SSfixed64
  | "bool" -> M.SBool | "string" -> M.SString | "bytes" -> M.SBytes
  | s -> raise (Parse_error ("scalar " ^ s))

let rec ptype_of (x : sx) : M.ptype =
  match x with
  | Atom "timestamp" -> M.PTimestamp
  | Atom "duration" -> M.PDuration
  | Atom "group" -> M.PGroup
  | Atom s -> M.PScalar (scalar_of s)
  | List [Atom "enum"; n] -> M.PEnum (cstr (atom n))
  | List [Atom "msg"; n] -> M.PMsg (cstr (atom n))
  | List [Atom "map"; k; v] -> M.PMap (ptype_of k, ptype_of v)
  | x -> fail_sx "type" x

let field_of (x : sx) : M.fdesc =
  match x with
  | List [Atom "field"; name; num; ty; lab; nullable; embed; cast; custom; stdtime; stddur; jsontag; oneof; comment] ->
      { M.fd_name = cstr (atom name); fd_num = z_of_string (atom num); fd_type = ptype_of ty;
        fd_repeated = (atom lab = "rep");
        fd_nullable = (match nullable with Atom "none" -> None | b -> Some (flag b));
        fd_embed = flag embed; fd_cast = cstr (atom cast); fd_custom = cstr (atom custom);
        fd_stdtime = flag stdtime; fd_stddur = flag stddur;
        fd_jsontag = (match jsontag with Atom "none" -> None | Str s -> Some (cstr s) | x -> fail_sx "jsontag" x);
        fd_oneof = (match oneof with Atom "none" -> None | a -> Some (nat_of_int (int_of_string (atom a))));
        fd_comment = cstr (atom comment) }
  | x -> fail_sx "field" x

let msg_of (x : sx) : M.mdesc =
  match x with
  | List [Atom "msg"; name; comment; List (Atom "oneofs" :: oo); List (Atom "fields" :: fs)] ->
      { M.md_name = cstr (atom name); md_comment = cstr (atom comment);
        md_oneofs = List.map (fun o -> cstr (atom o)) oo; md_fields = List.map field_of fs }
  | x -> fail_sx "msg" x

let file_of (x : sx) : M.file =
  match x with
  | List [Atom "spec"; name; pkg; gopkg; List (Atom "enums" :: es); List (Atom "messages" :: ms); List (Atom "deps" :: ds)] ->
      { M.f_name = cstr (atom name); f_package = cstr (atom pkg); f_gopkg = cstr (atom gopkg);
        f_enums = List.map (fun e -> cstr (atom (List.hd (items e)))) es;
        f_msgs = List.map msg_of ms;
        f_deps = List.map (fun d -> match d with
            | List [Atom "dep"; n; _; _; List (Atom "messages" :: dm)] -> { M.dep_name = cstr (atom n); dep_msgs = List.map msg_of dm }
            | x -> fail_sx "dep" x) ds }
  | x -> fail_sx "spec" x

let kind_of_atom = function
  | "i64" -> M.KI64 | "f64" -> M.KF64 | "str" -> M.KStr | "bool" -> M.KBool | "time" -> M.KTime | "dur" -> M.KDur
  | s -> raise (Parse_error ("kind " ^ s))

let strs l = List.map (fun x -> cstr (atom x)) l

let yaml_of (x : sx) : M.yamlsrc =
  match x with
  | Atom "absent" -> M.YAbsent
  | Atom "missing" -> M.YUnreadable
  | Atom "malformed" -> M.YMalformed
  | List (Atom "doc" :: entries) ->
      let find k = List.find_opt (fun e -> head e = k) entries in
      let lst k = match find k with Some (List (_ :: l)) -> Some (strs l) | _ -> None in
      let str k = match find k with Some (List [_; v]) -> Some (cstr (atom v)) | _ -> None in
      let bool k = match find k with Some (List [_; v]) -> Some (flag v) | _ -> None in
      let smap k = match find k with
        | Some (List (_ :: l)) -> List.map (fun e -> match e with List [a; b] -> (cstr (atom a), cstr (atom b)) | x -> fail_sx "map entry" x) l
        | _ -> [] in
      let lmap k = match find k with
        | Some (List (_ :: l)) -> List.map (fun e -> match e with List (a :: vs) -> (cstr (atom a), strs vs) | x -> fail_sx "lmap entry" x) l
        | _ -> [] in
      let inj = match find "injected_fields" with
        | Some (List (_ :: l)) ->
            List.map (fun e -> match e with
                | List (p :: fs) ->
                    (cstr (atom p),
                     List.map (fun f -> match f with
                         | List [n; ty; req; comp; opt; List (Atom "pms" :: pms); List (Atom "vals" :: vals)] ->
                             M.Injected (cstr (atom n), M.TyPrim (kind_of_atom (atom ty)), flag req, flag comp, flag opt, strs pms, strs vals)
                         | x -> fail_sx "injected" x) fs)
                | x -> fail_sx "injected entry" x) l
        | _ -> [] in
      let rest = { M.empty_config with
                   M.c_use_state = (match bool "use_state_for_unknown_by_default" with Some b -> b | None -> false);
                   c_suffixes = smap "suffixes"; c_name_overrides = smap "name_overrides";
                   c_validators = lmap "validators"; c_planmods = lmap "plan_modifiers";
                   c_time_type = (find "time_type" <> None); c_duration_type = (find "duration_type" <> None);
                   c_injected = inj; c_import_overrides = smap "import_path_overrides"; c_custom_types = smap "custom_types" } in
      M.YDoc { M.y_types = lst "types"; y_duration_custom_type = str "duration_custom_type";
               y_exclude = lst "exclude_fields"; y_computed = lst "computed_fields"; y_required = lst "required_fields";
               y_sensitive = lst "sensitive_fields"; y_target_pkg = str "target_package_name";
               y_default_pkg = str "default_package_name"; y_sort = bool "sort"; y_rest = rest }
  | x -> fail_sx "yaml" x

(* ------------------------------------------------------------------------------------- *)
(* values *)

let types : (int, (M.string * M.tfty) list) Hashtbl.t = Hashtbl.create 64

let rec ty_of (x : sx) : M.tfty =
  match x with
  | Atom a -> M.TyPrim (kind_of_atom a)
  | List [Atom "list"; e] -> M.TyList (ty_of e)
  | List [Atom "map"; e] -> M.TyMap (ty_of e)
  | List [Atom "hook"; s] -> M.TyHook (cstr (atom s))
  | List [Atom "obj"; r] -> M.TyObj (objref r)
  | x -> fail_sx "ty" x
and objref (x : sx) : (M.string * M.tfty) list =
  match x with
  | Atom "nil" -> []
  | Atom a when String.length a > 1 && a.[0] = '#' ->
      (try Hashtbl.find types (int_of_string (String.sub a 1 (String.length a - 1)))
       with Not_found -> raise (Parse_error ("undefined type " ^ a)))
  | List l -> objbody l
  | x -> fail_sx "objref" x
and objbody l = List.map (fun e -> match e with List [n; t] -> (cstr (atom n), ty_of t) | x -> fail_sx "objbody" x) l

let is_nil = function Atom "nil" -> true | _ -> false

let rec gv_of (x : sx) : M.goval =
  match x with
  | List [Atom "i"; n] -> M.GPrim (M.PInt (z_of_string (atom n)))
  | List [Atom "f32"; h] -> M.GPrim (M.PF32 (M.sf32_of_bits (z_of_hex (atom h))))
  | List [Atom "f64"; h] -> M.GPrim (M.PF64 (M.sf64_of_bits (z_of_hex (atom h))))
  | List [Atom "b"; b] -> M.GPrim (M.PBool (flag b))
  | List [Atom "s"; s] -> M.GPrim (M.PStr (cstr (atom s)))
  | List [Atom "by"; Atom "nil"] -> M.GBytes None
  | List [Atom "by"; Str s] -> M.GBytes (Some (cstr s))
  | List [Atom "t"; a; b; c] -> M.GPrim (M.PTime (z_of_string (atom a), z_of_string (atom b), z_of_string (atom c)))
  | List [Atom "p"; Atom "nil"] -> M.GPtr None
  | List [Atom "p"; v] -> M.GPtr (Some (gv_of v))
  | List [Atom "l"; Atom "nil"] -> M.GSlice None
  | List (Atom "l" :: vs) -> M.GSlice (Some (List.map gv_of vs))
  | List [Atom "m"; Atom "nil"] -> M.GMap None
  | List (Atom "m" :: es) -> M.GMap (Some (List.map kv_of es))
  | List (Atom "st" :: es) -> M.GStruct (List.map kv_of es)
  | List [Atom "o"; Atom "nil"] -> M.GOneof None
  | List [Atom "o"; b; v] -> M.GOneof (Some (cstr (atom b), gv_of v))
  | x -> fail_sx "goval" x
and kv_of = function List [k; v] -> (cstr (atom k), gv_of v) | x -> fail_sx "kv" x

let prim_of (x : sx) : M.prim =
  match gv_of x with M.GPrim p -> p | _ -> fail_sx "prim payload" x

let rec tv_of (x : sx) : M.tfval =
  match x with
  | List [Atom "nilv"] -> M.VNil
  | List [Atom "pv"; k; n; u; p] -> M.VPrim (kind_of_atom (atom k), flag n, flag u, prim_of p)
  | List [Atom "lv"; ety; n; u; body] ->
      M.VList (ty_of ety, flag n, flag u, (if is_nil body then None else Some (List.map tv_of (items body))))
  | List [Atom "mv"; ety; n; u; body] ->
      M.VMap (ty_of ety, flag n, flag u, (if is_nil body then None else Some (List.map tkv_of (items body))))
  | List [Atom "ov"; atys; n; u; body] ->
      M.VObj (objref atys, flag n, flag u, (if is_nil body then None else Some (List.map tkv_of (items body))))
  | List [Atom "hv"; s; fromtf; n; u; f; ty; cur] ->
      M.VHook (cstr (atom s), flag fromtf, flag n, flag u,
               (match f with Atom "none" -> None | f -> Some (gv_of f)),
               (match ty with Atom "none" -> None | t -> Some (ty_of t)),
               (match cur with Atom "absent" -> None | c -> Some (match tv_of c with M.VNil -> None | v -> Some v)))
  | x -> fail_sx "tfval" x
and tkv_of = function List [k; v] -> (cstr (atom k), tv_of v) | x -> fail_sx "tkv" x

(* ------------------------------------------------------------------------------------- *)
(* canonical printing *)

let q (s : string) : string =
  let b = Buffer.create (String.length s + 2) in
  Buffer.add_char b '"';
  String.iter (fun c ->
      if c = '"' || c = '\\' then begin Buffer.add_char b '\\'; Buffer.add_char b c end
      else if Char.code c < 0x20 || Char.code c > 0x7e then Buffer.add_string b (Printf.sprintf "\\x%02x" (Char.code c))
      else Buffer.add_char b c) s;
  Buffer.add_char b '"';
  Buffer.contents b

let qs (s : M.string) = q (ostr s)
let b01 b = if b then "1" else "0"

let sort_kv l = List.sort (fun (a, _) (b, _) -> compare a b) (List.map (fun (k, v) -> (ostr k, v)) l)

let kind_atom = function M.KI64 -> "i64" | M.KF64 -> "f64" | M.KStr -> "str" | M.KBool -> "bool" | M.KTime -> "time" | M.KDur -> "dur"

let rec p_ty (t : M.tfty) : string =
  match t with
  | M.TyPrim k -> kind_atom k
  | M.TyList e -> "(list " ^ p_ty e ^ ")"
  | M.TyMap e -> "(map " ^ p_ty e ^ ")"
  | M.TyHook s -> "(hook " ^ qs s ^ ")"
  | M.TyObj ats -> "(obj " ^ p_atys ats ^ ")"
and p_atys ats = "(" ^ String.concat " " (List.map (fun (k, t) -> "(" ^ q k ^ " " ^ p_ty t ^ ")") (sort_kv ats)) ^ ")"

let p_prim = function
  | M.PInt z -> "(i " ^ string_of_z z ^ ")"
  | M.PF32 x -> "(f32 " ^ hex_of_z 8 (M.bits_of_sf32 x) ^ ")"
  | M.PF64 x -> "(f64 " ^ hex_of_z 16 (M.bits_of_sf64 x) ^ ")"
  | M.PBool b -> "(b " ^ b01 b ^ ")"
  | M.PStr s -> "(s " ^ qs s ^ ")"
  | M.PTime (a, b, c) -> "(t " ^ string_of_z a ^ " " ^ string_of_z b ^ " " ^ string_of_z c ^ ")"

let rec p_gv (g : M.goval) : string =
  match g with
  | M.GPrim p -> p_prim p
  | M.GBytes None -> "(by nil)"
  | M.GBytes (Some s) -> "(by " ^ qs s ^ ")"
  | M.GPtr None -> "(p nil)"
  | M.GPtr (Some v) -> "(p " ^ p_gv v ^ ")"
  | M.GSlice None -> "(l nil)"
  | M.GSlice (Some l) -> "(l" ^ String.concat "" (List.map (fun v -> " " ^ p_gv v) l) ^ ")"
  | M.GMap None -> "(m nil)"
  | M.GMap (Some l) -> "(m" ^ String.concat "" (List.map (fun (k, v) -> " (" ^ q k ^ " " ^ p_gv v ^ ")") (sort_kv l)) ^ ")"
  | M.GStruct l -> "(st" ^ String.concat "" (List.map (fun (k, v) -> " (" ^ q k ^ " " ^ p_gv v ^ ")") (sort_kv l)) ^ ")"
  | M.GOneof None -> "(o nil)"
  | M.GOneof (Some (b, v)) -> "(o " ^ qs b ^ " " ^ p_gv v ^ ")"

let rec p_tv (t : M.tfval) : string =
  match t with
  | M.VNil -> "(nilv)"
  | M.VPrim (k, n, u, p) -> "(pv " ^ kind_atom k ^ " " ^ b01 n ^ " " ^ b01 u ^ " " ^ p_prim p ^ ")"
  | M.VList (e, n, u, el) ->
      "(lv " ^ p_ty e ^ " " ^ b01 n ^ " " ^ b01 u ^ " " ^
      (match el with None -> "nil" | Some l -> "(" ^ String.concat " " (List.map p_tv l) ^ ")") ^ ")"
  | M.VMap (e, n, u, el) ->
      "(mv " ^ p_ty e ^ " " ^ b01 n ^ " " ^ b01 u ^ " " ^ p_tkvs el ^ ")"
  | M.VObj (a, n, u, el) ->
      "(ov " ^ p_atys a ^ " " ^ b01 n ^ " " ^ b01 u ^ " " ^ p_tkvs el ^ ")"
  | M.VHook (s, fromtf, n, u, f, ty, cur) ->
      "(hv " ^ qs s ^ " " ^ b01 fromtf ^ " " ^ b01 n ^ " " ^ b01 u ^ " " ^
      (match f with None -> "none" | Some g -> p_gv g) ^ " " ^
      (match ty with None -> "none" | Some t -> p_ty t) ^ " " ^
      (match cur with None | Some None | Some (Some M.VNil) -> "absent" | Some (Some v) -> p_tv v) ^ ")"
and p_tkvs el =
  match el with
  | None -> "nil"
  | Some l -> "(" ^ String.concat " " (List.map (fun (k, v) -> "(" ^ q k ^ " " ^ p_tv v ^ ")") (sort_kv l)) ^ ")"

let dkind_atom = function
  | M.ReadMissing -> "ReadMissing" | M.ReadConv -> "ReadConv" | M.WriteMissing -> "WriteMissing"
  | M.WriteConv -> "WriteConv" | M.WriteGeneral -> "WriteGeneral"

let p_diags (ds : M.diag list) : string =
  let l = List.sort_uniq compare (List.map (fun (k, p) -> (dkind_atom k, ostr p)) ds) in
  "(diags" ^ String.concat "" (List.map (fun (k, p) -> " (" ^ k ^ " " ^ q p ^ ")") l) ^ ")"

let diags_of (x : sx) : string =
  match x with
  | List (Atom "diags" :: ds) ->
      let l = List.sort_uniq compare (List.map (fun d -> match d with List [k; p] -> (atom k, atom p) | x -> fail_sx "diag" x) ds) in
      "(diags" ^ String.concat "" (List.map (fun (k, p) -> " (" ^ k ^ " " ^ q p ^ ")") l) ^ ")"
  | x -> fail_sx "diags" x

(* schema *)
let nest_atom = function M.NSingle -> "single" | M.NList -> "list" | M.NMap -> "map"

let rec p_sattrs (l : M.sattr list) : string =
  let items = List.map (fun a -> match a with
      | M.SAttr (n, req, opt, comp, sens, desc, vals, pms, body) ->
          (ostr n,
           "(attr " ^ qs n ^ " (" ^ b01 req ^ " " ^ b01 opt ^ " " ^ b01 comp ^ " " ^ b01 sens ^ ") " ^ qs desc ^
           " (vals" ^ String.concat "" (List.map (fun v -> " " ^ qs v) vals) ^ ")" ^
           " (pms" ^ String.concat "" (List.map (fun v -> " " ^ qs v) pms) ^ ") " ^
           (match body with
            | M.SLeaf t -> "(ty " ^ p_ty t ^ ")"
            | M.SNoType -> "(ty none)"
            | M.SNested (mode, sub) -> "(nested " ^ nest_atom mode ^ " " ^ p_sattrs sub ^ ")") ^ ")")) l in
  "(attrs" ^ String.concat "" (List.map (fun (_, s) -> " " ^ s) (List.sort (fun (a, _) (b, _) -> compare a b) items)) ^ ")"

let rec sattrs_of (x : sx) : M.sattr list =
  match x with
  | List (Atom "attrs" :: l) ->
      List.map (fun a -> match a with
          | List [Atom "attr"; n; List [req; opt; comp; sens]; desc; List (Atom "vals" :: vals); List (Atom "pms" :: pms); body] ->
              M.SAttr (cstr (atom n), flag req, flag opt, flag comp, flag sens, cstr (atom desc), strs vals, strs pms,
                       (match body with
                        | List [Atom "ty"; Atom "none"] -> M.SNoType
                        | List [Atom "ty"; t] -> M.SLeaf (ty_of t)
                        | List [Atom "nested"; Atom m; sub] ->
                            M.SNested ((match m with "single" -> M.NSingle | "list" -> M.NList | _ -> M.NMap), sattrs_of sub)
                        | x -> fail_sx "attr body" x))
          | x -> fail_sx "attr" x) l
  | x -> fail_sx "attrs" x

(* ------------------------------------------------------------------------------------- *)
(* main *)

let programs : (string, M.outcome) Hashtbl.t = Hashtbl.create 64

let read_lines (path : string) (f : string -> unit) : unit =
  let ic = open_in_bin path in
  (try
     while true do f (input_line ic) done
   with End_of_file -> ());
  close_in ic

let root_of (prog : string) (root : string) : M.message option =
  match Hashtbl.find_opt programs prog with
  | Some (M.Response r) ->
      (match List.find_opt (fun (n, _) -> ostr n = root) r.M.r_roots with Some (_, m) -> Some m | None -> None)
  | _ -> None

let () =
  if Array.length Sys.argv < 4 then begin prerr_endline "usage: modelrun <programs.sexp> <cases.sexp> <out>"; exit 2 end;
  let out = open_out_bin Sys.argv.(3) in
  let pr fmt = Printf.fprintf out fmt in
  (* MODELRUN_SHARD=k/n: replay only every n-th record (offset k); type declarations are read by all shards *)
  let shard_k, shard_n =
    match Sys.getenv_opt "MODELRUN_SHARD" with
    | Some s -> (match String.split_on_char '/' s with [k; n] -> (int_of_string k, int_of_string n) | _ -> (0, 1))
    | None -> (0, 1) in
  (* programs: evaluated by every shard, printed by the first *)
  let pr0 fmt = if shard_k = 0 then Printf.fprintf out fmt else Printf.ifprintf out fmt in
  read_lines Sys.argv.(1) (fun line ->
      if String.length line > 0 then
        match parse_sx line with
        | [List [Atom "program"; id; spec; List (Atom "params" :: ps); List [Atom "yaml"; y]]] ->
            let id = atom id in
            (try
               let file = file_of spec in
               let params = List.map (fun p -> match p with List [k; v] -> (cstr (atom k), cstr (atom v)) | x -> fail_sx "param" x) ps in
               let o = M.run params (yaml_of y) file in
               Hashtbl.replace programs id o;
               (match o with
                | M.Fail -> pr0 "(program %s fail)\n" (q id)
                | M.Response r ->
                    pr0 "(program %s ok %s %s (roots%s) (failed%s))\n" (q id) (qs r.M.r_file_name) (qs r.M.r_package)
                      (String.concat "" (List.map (fun (n, _) -> " " ^ qs n) r.M.r_roots))
                      (String.concat "" (List.map (fun n -> " " ^ qs n) r.M.r_failed));
                    List.iter (fun (n, m) ->
                        pr0 "(modelschema %s %s %s %s)\n" (q id) (qs n) (p_sattrs (M.model_schema_attrs m)) (p_atys (M.model_schema_ty m));
                        pr0 "(class %s %s (tf_ok %s) (flat_ok %s) (rt_ok %s) (echo_class %s) (echo_class2 %s) (emb_ok %s) (tfc_ok %s) (embc_ok %s) (rte_ok %s) (any_to_class %s))\n" (q id) (qs n) (b01 (M.tf_ok m)) (b01 (M.flat_ok m)) (b01 (M.rt_ok m))
                          (b01 (M.echo_class m)) (b01 (M.echo_class2 m)) (b01 (M.emb_ok m)) (b01 (M.tfc_ok m)) (b01 (M.embc_ok m)) (b01 (M.rte_ok m))
                          (b01 (M.tf_ok m || M.emb_ok m || M.tfc_ok m || M.embc_ok m)))
                      r.M.r_roots)
             with Parse_error e -> pr0 "(programerror %s %s)\n" (q id) (q e))
        | _ -> ());
  (* cases *)
  let nmatch = ref 0 and nmis = ref 0 and nskip = ref 0 in
  let mismatch id kind impl model =
    incr nmis;
    pr "(mismatch %s %s (impl %s) (model %s))\n" (q id) kind impl model in
  let opt_str = function Atom "nil" -> None | x -> Some (atom x) in
  let p_opt = function None -> "nil" | Some s -> q s in
  let recno = ref 0 in
  if Sys.argv.(2) <> "-" then
   List.iter (fun casefile -> if Sys.file_exists casefile then
    read_lines casefile (fun line ->
        if String.length line > 4 then
          let c1 = line.[1] in
          let is_ty = c1 = 't' && line.[2] = 'y' && line.[3] = ' ' in
          let mine = is_ty || (incr recno; !recno mod shard_n = shard_k) in
          if mine && (c1 = 't' || c1 = 's' || c1 = 'f') then
            try
              match parse_sx line with
              | [List [Atom "ty"; n; List body]] -> Hashtbl.replace types (int_of_string (atom n)) (objbody body)
              | [List [Atom "schema"; prog; root; attrs; objty]] ->
                  (match root_of (atom prog) (atom root) with
                   | None -> incr nskip; pr "(nomodel %s)\n" (q (atom prog ^ "/" ^ atom root ^ "/schema"))
                   | Some m ->
                       let impl = p_sattrs (sattrs_of attrs) ^ " " ^ p_ty (ty_of objty) in
                       let model = p_sattrs (M.model_schema_attrs m) ^ " " ^ p_ty (M.TyObj (M.model_schema_ty m)) in
                       if impl = model then incr nmatch else mismatch (atom prog ^ "/" ^ atom root ^ "/schema") "schema" impl model)
              | [List [Atom "strfn"; id; Atom fn; List args; List results]] ->
                  (* text functions of package main probed through the verif hook (and strcase) *)
                  let impl = String.concat " " (List.map (fun r -> p_opt (opt_str r)) results) in
                  let a n = cstr (atom (List.nth args n)) in
                  let model =
                    match fn with
                    | "comment" -> qs (M.to_single_line (a 0))
                    | "snake" -> qs (M.snake_case (a 0))
                    | "camel" -> qs (M.upper_camel (a 0))
                    | "jsonname" -> qs (M.json_name (match args with [] -> None | _ -> Some (a 0)))
                    | "pkgclause" -> qs (M.replace_package_name (a 0) (a 1))
                    | "imports" ->
                        (match args with
                         | [List ov; List ops] ->
                             let ov = List.map (function List [k; v] -> (cstr (atom k), cstr (atom v)) | x -> fail_sx "override" x) ov in
                             let ops = List.map (function
                                 | List [Atom "T"; t] -> M.OpWithType (cstr (atom t))
                                 | List [Atom "P"; p; t] -> M.OpWithPackage (cstr (atom p), cstr (atom t))
                                 | List [Atom "N"; t; p] -> M.OpPrepend (cstr (atom t), cstr (atom p))
                                 | x -> fail_sx "imports op" x) ops in
                             String.concat " " (List.map (function None -> "nil" | Some s -> qs s) (M.run_iops ov [] ops))
                         | _ -> fail_sx "imports args" (List args))
                    | _ -> fail_sx "strfn" (Atom fn) in
                  if impl = model then incr nmatch else mismatch (atom id) ("text-" ^ fn) impl model
              | [List [Atom "to"; id; prog; root; src; target; result]] ->
                  (match root_of (atom prog) (atom root) with
                   | None -> incr nskip; pr "(nomodel %s)\n" (q (atom id))
                   | Some m ->
                       let impl = match result with
                         | List [Atom "panic"] -> "(panic)"
                         | List [Atom "ok"; v; ds] -> "(ok " ^ p_tv (tv_of v) ^ " " ^ diags_of ds ^ ")"
                         | x -> fail_sx "result" x in
                       let model = match M.model_copy_to m (gv_of src) (tv_of target) with
                         | M.Panic -> "(panic)"
                         | M.Ok (v, ds) -> "(ok " ^ p_tv v ^ " " ^ p_diags ds ^ ")" in
                       if impl = model then incr nmatch else mismatch (atom id) "to" impl model)
              | [List [Atom "from"; id; prog; root; obj; prior; result]] ->
                  (match root_of (atom prog) (atom root) with
                   | None -> incr nskip; pr "(nomodel %s)\n" (q (atom id))
                   | Some m ->
                       let impl = match result with
                         | List [Atom "panic"] -> "(panic)"
                         | List [Atom "ok"; v; ds] -> "(ok " ^ p_gv (gv_of v) ^ " " ^ diags_of ds ^ ")"
                         | x -> fail_sx "result" x in
                       let model = match M.model_copy_from m (tv_of obj) (gv_of prior) with
                         | M.Panic -> "(panic)"
                         | M.Ok (v, ds) -> "(ok " ^ p_gv v ^ " " ^ p_diags ds ^ ")" in
                       if impl = model then incr nmatch else mismatch (atom id) "from" impl model)
              | _ -> ()
            with Parse_error e -> pr "(caseerror %s)\n" (q e))) (String.split_on_char ',' Sys.argv.(2));
  pr "(summary (matched %d) (mismatched %d) (nomodel %d))\n" !nmatch !nmis !nskip;
  close_out out
