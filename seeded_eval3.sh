#!/bin/sh
# evaluates a seeded change in its own scratch worktree (which has the change applied), without touching /repo:
# usage: seeded_eval3.sh <worktree> [run-dir]   — prints failing-verdict counts per property and model mismatches
W="$1"; R=${2:-/verif/.cache/dev_$(basename $W)}
export GOFLAGS=-mod=mod GOPROXY=off GOSUMDB=off GOTOOLCHAIN=local
/verif/bin/vh prepare --repo $W --out $R --tier ${TIER:-quick} --seed ${SEED:-1} >$R.log 2>&1 || { echo "prepare failed"; tail -3 $R.log; }
VERIF_INFO_DIR=$R/info $R/bin/driver run $R/jobs.sexp $R/cases.sexp 2>/dev/null
/verif/bin/modelrun $R/programs.sexp $R/cases.sexp,$R/text.sexp $R/model.out >/dev/null 2>&1
/verif/bin/vh eval --run $R >/dev/null 2>&1
python3 - $R <<'PY'
import re,collections,sys
R=sys.argv[1]
c=collections.Counter()
for fn in (R+'/cases.sexp',R+'/eval.sexp'):
    for l in open(fn,errors='replace'):
        if l.startswith('(oracle '):
            m=re.match(r'\(oracle (\S+) "[^"]*" (\S+)',l)
            if m and m.group(2)=='fail': c[m.group(1)]+=1
print('failing verdicts:',dict(sorted(c.items())))
PY
echo "model mismatches: $(grep -c '^(mismatch' $R/model.out)  corr0: $(grep -c '^(corr "[^"]*" 0 ' $R/eval.sexp)"
cat $R/cases.sexp $R/eval.sexp > $R/all.sexp
python3 /verif/home_hits.py $R $(basename $W | sed "s/mut_//" | cut -c1-3)
