import json
props=[json.loads(l) for l in open('/verif/properties.jsonl')]
notes={
 'C01':("theorems on Plugin.run (response shape, roots = selected types that build) and on the package-clause rewrite (exactly the first `package x` line changes); 'type-checks and compiles' is NOT a theorem: every generated file of the corpus is compiled with protoc-gen-gogo's output on each run (partial)", "Rocq theorems on the response model and the text layer + hook probe of replacePackageName + go build of every corpus program + go/ast declaration check"),
 'C02':("locality theorems for both converters (one field <-> one attribute), schema/value types follow the documented table (class tf_ok), front-end name rule (override, JSON tag, snake case) and promotion of embedded messages proved on the builder; names/types also checked against an independent oracle, dynamically and statically on the generated text; naming functions probed on random strings", "Rocq theorems (locality, typing, naming) + model/implementation correspondence + independent naming oracle"),
 'C03':("proved for all kinds except custom types and nullable embedded messages (tf_ok): total, no diagnostics, schema-conformant at every depth, nothing unknown; 'nothing unknown' proved for every message", "Rocq theorems by induction over the IR + correspondence + oracle incl. real ToTerraformValue"),
 'C04':("whole-message round trip proved (CopyTo into the empty object then CopyFrom into the zero struct gives the value back up to the normal form, no diagnostics, every depth) for the class rt_ok: every kind except custom types and fields promoted from nullable embedded messages; those are decided by the oracle (partial)", "Rocq theorem by mutual induction over the IR + correspondence + round-trip oracle in normal form"),
 'C05':("message level: the result of CopyFrom is independent of the prior target and an all-null/unknown object yields the zero message (class without custom/promoted top-level fields); reset, payload- and prior-independence per field for every field", "Rocq theorems + correspondence + oracle over conforming objects with payload under null/unknown"),
 'C06':("CopyFrom proved total on every object (class flat_ok); CopyTo proved never to panic on any object target except a non-object element type (outside the quantifier), missing type => exactly WriteMissing for every kind of field; diagnostics form a set; exact diagnostic sets checked by the oracle", "Rocq theorems (totality over arbitrary tfval trees, both directions) + correspondence + malformed-input oracle"),
 'C07':("CopyFrom: none/one-branch theorems at message level; CopyTo: inactive scalar and message branches rendered null, active one with its value (per field), conformance (tf_ok); every pair of branches by the oracle", "Rocq theorems + correspondence + oracle over every (active branch, prior holder) pair"),
 'C08':("per-attribute echo proved (known scalar / pointer scalar reproduced exactly, unknown becomes known null, nothing unknown left); the whole-plan statement is decided by the oracle on admissible plans (partial)", "Rocq theorems (attribute level) + correspondence + echo oracle"),
 'C09':("message level: in-place copy into an earlier result or any well-formed earlier object never fails, collections hold exactly the fresh elements, payloads are fresh wherever non-null, null flags fresh or earlier, nothing unknown; idempotence as equality; the stronger 'in-place = fresh' is refuted (sticky null flags, as the property's wording anticipates) (class tf_ok)", "Rocq theorems by mutual induction + correspondence + history oracle"),
 'C10':("schema flags/metadata = IR flags, front end sets them from the configuration (flags, validators, plan modifiers, UseStateForUnknown default, one-line description), injected attributes never touched by CopyTo, placeholder exactly for messages without fields and always null; flags vs configuration checked against the independent oracle", "Rocq theorems + schema walk against independent oracle"),
 'C11':("excluded field contributes no IR field (theorem), hence nothing emitted/written (locality theorems); a flag holds iff the message-qualified name or the path is listed, path entry before type-name entry (theorems); 'nothing else changes' decided by schema/converter comparison on option variants", "Rocq theorems + with/without option families"),
 'C12':("roots = selected messages that build; IR of a selected type independent of the other selected types (theorems); byte identity of function texts checked on the implementation", "Rocq theorems + function-text comparison across selections"),
 'C13':("IR (hence schema and converters) independent of the package options (theorem); qualification of Go type strings proved (unqualified without default package, builtins never, others once with the alias of the overridden path, alias is an identifier); 'compiles there' and equal behaviour decided by go build and differential execution of the two-package layout (partial)", "Rocq theorems + hook probe of Imports + go build + differential execution of same/separate package variants"),
 'C14':("configuration reaches the front end only through lookups; permutation invariance proved (uses functional_extensionality); run-to-run determinism decided by repeated runs of the real plugin (partial)", "Rocq theorem + repeated plugin runs + permuted configurations"),
 'C15':("with sort the IR fields of a message are invariant under permutation of its declared fields (theorem); without sort the fields are a permutation (theorem); byte identity / behaviour equality checked on permuted descriptors", "Rocq theorems + permuted-descriptor families"),
 'C16':("channel equivalence for all nine dual options, precedence, + separator, failure without types or with unreadable/malformed file: theorems on read_config (the YAML parser itself is not modelled)", "Rocq theorems on the configuration reader + channel families on the implementation"),
 'C17':("delegation equations for the three hooks and the default suffix: theorems with the hooks as parameters; call contract checked by instrumented hooks", "Rocq theorems (hooks as section variables) + instrumented hooks"),
 'C18':("a message with an unmappable declared field does not build; errors propagate from nested messages; exclusion restores (theorems)", "Rocq theorems + unmappable-field families"),
 'C19':("all integer kinds over their whole range, float32 widen/narrow exact (via Flocq), bytes, time, bool, string: theorems; through the generated code of one field: theorem", "Rocq theorems (Flocq for float32) + boundary-value oracle"),
 'C20':("null-ness on the empty target: scalars at message level (tf_ok), pointers, placeholder, lists, maps, nullable and by-value messages, inactive oneof branches per field; every depth by the oracle", "Rocq theorems + null-ness oracle at every depth"),
}
checks=[]
for p in props:
    pid=p['id']
    text,tech=notes[pid]
    checks.append({
      "property_id": pid,
      "quick_cmd": "./check %s --tier quick" % pid,
      "thorough_cmd": "./check %s --tier thorough" % pid,
      "evidence_file": "evidence/%s.json" % pid,
      "replay_cmd_template": "./check %s --replay {path}" % pid,
      "engine": "rocq+correspondence",
      "level_claimed": {"category": "proof", "text": text, "design_ref": "DESIGN.md section 7 (%s), section 13" % pid},
      "level_note": "Trusted: Coq 8.16.1 kernel; no axioms declared; float32 theorems (C19, and C04/C08/C20 theorems built on them; AXIOMS.md lists each) inherit the standard-library axioms sig_forall_dec, sig_not_dec, functional_extensionality_dep, classic through Flocq; C14/C11 use functional_extensionality_dep. The model is hand written and tied to /repo by replaying every driver case and every text-probe request (hook verif_probe.go, build tag verif) with the extracted model (ExtrOcamlBasic only) on each run; harness, reflective driver, independent oracle and OCaml model runner are trusted. See DESIGN.md section 9.",
      "technique": tech})
m={"version":1,
   "setup_cmd":"./setup.sh",
   "hooks":{"guard":"verif","enable":"vh prepare builds a second binary with `go build -tags verif` from /repo's working tree (verif_probe.go: JSON line protocol over the pure text functions Comment.ToSingleLine, replacePackageName, GetJSONName, Imports.*); the plugin binary that generates the corpus is built WITHOUT the tag","baseline_off_cmd":"cd /repo && go test -vet=off -count=1 ./...","source_commits":["ba44045"],"add_only":True},
   "engines":[{"name":"rocq+correspondence","path":"check","serves_properties":[p['id'] for p in props],"kind_free_text":"Rocq (Coq 8.16.1) theorems about a hand-written executable model (coq/), re-checked by coqc on every run; the model is extracted to OCaml and replays every case the real generator's output executed (harness/, ocaml/); property oracles on the implementation's observables"}],
   "checks":checks,
   "notes":"All checks share one preparation per (tree of /repo, sources of /verif, tier, seed) under /verif/.cache/runs; the first check of a run pays for it (about a minute at the quick tier). VERIF_SEED seeds the one PRNG. /repo carries 11 'fix:' commits for genuine defects found by this machinery (known_findings.json).",
   "not_applicable":[]}
json.dump(m,open('/verif/MANIFEST.json','w'),indent=1)
print('ok',len(checks))
