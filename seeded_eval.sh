#!/bin/sh
# development helper: apply a seeded change to /repo, run the whole pipeline, show failing verdicts, undo
P="$1"
cd /repo && git apply "$P" || exit 1
cd /verif && ./dev_run.sh 2>&1 | cut -c1-${CUT:-260} | head -${HEAD:-25}
grep -c "^(mismatch" /verif/.cache/dev/model.out
cd /repo && git checkout -- . && git status --short | head -3
