#!/usr/bin/env python3
# development helper: how many failing oracle verdicts of a run directory the check of property <pid> would count
# (its own label plus the labels of the ALSO table on the programs that list the property)   usage: home_hits.py <run> <pid>
import json, re, sys, os
run, pid = sys.argv[1], sys.argv[2]
src = open(os.path.join(os.path.dirname(os.path.abspath(__file__)), "check")).read()
ALSO = eval(re.search(r"^ALSO = (\{.*?^\})", src, re.S | re.M).group(1))
progs = {p["id"]: p for p in json.load(open(os.path.join(run, "programs.json")))}
n = 0; first = None
for fn in ("cases.sexp", "eval.sexp"):
    for l in open(os.path.join(run, fn), errors="replace"):
        m = re.match(r'\(oracle (\S+) "([^"]*)" (\S+)', l)
        if not m or m.group(3) != "fail":
            continue
        label, case = m.group(1), m.group(2)
        p = progs.get(case.split("/")[0])
        ok = label == pid or (label in ALSO.get(pid, []) and p is not None and pid in (p.get("props") or []) and (p.get("role") != "base" or pid in ("C17", "C18")))
        if ok:
            n += 1; first = first or (label + " " + case)
print("home %s: %d failing verdicts%s" % (pid, n, (" (first: " + first + ")") if first else ""))
