#!/bin/sh
# confirms a seeded change in its scratch worktree: applies/compiles/baseline tests/demo fails with, passes without
# usage: seeded_confirm.sh <PID>   (worktree /tmp/mut_<PID>)
export GOFLAGS=-mod=mod GOPROXY=off GOSUMDB=off GOTOOLCHAIN=local
P=$1; W=/tmp/mut_$P
cd $W || exit 1
git diff -- . ':!MUT' | diff -q - MUT/patch.diff >/dev/null && echo "$P: worktree diff == patch.diff" || echo "$P: WORKTREE DIFF != patch.diff"
go build ./... && echo "$P: builds" || echo "$P: BUILD FAILS"
go test -vet=off -count=1 ./... >/tmp/mut_$P.test.log 2>&1 && echo "$P: baseline tests pass" || echo "$P: BASELINE TESTS FAIL"
CMD=$(cat MUT/demo/RUN.txt | head -1)
(cd MUT/demo && timeout 900 sh -c "$CMD" >/tmp/mut_$P.with.log 2>&1); echo "$P: demo with change exit=$?"
git apply -R MUT/patch.diff
(cd MUT/demo && timeout 900 sh -c "$CMD" >/tmp/mut_$P.without.log 2>&1); echo "$P: demo without change exit=$?"
git apply MUT/patch.diff
