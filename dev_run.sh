#!/bin/sh
# development helper: prepare + driver + model on the dev run dir, print summary
R=/verif/.cache/dev
export GOFLAGS=-mod=mod GOPROXY=off GOSUMDB=off GOTOOLCHAIN=local
(cd /verif/harness && go build -o /verif/bin/vh ./cmd/vh) || exit 1
/verif/bin/vh prepare --out $R --tier ${TIER:-quick} --seed ${SEED:-1} $ONLY || exit 1
VERIF_INFO_DIR=$R/info $R/bin/driver run $R/jobs.sexp $R/cases.sexp 2>/dev/null
/verif/bin/modelrun $R/programs.sexp $R/cases.sexp,$R/text.sexp $R/model.out
tail -1 $R/model.out
/verif/bin/vh eval --run $R; cat $R/cases.sexp $R/eval.sexp > $R/all.sexp; grep -c "^(corr \"[^\"]*\" 0 " $R/eval.sexp; python3 /verif/harness/oracle_summary.py $R/all.sexp ${W:-100} | cut -c1-${CUT:-220}
