From Coq Require Import ZArith Reals Lia Lra Psatz.
From Flocq Require Import Core.Core Core.Zaux IEEE754.BinarySingleNaN IEEE754.Binary IEEE754.Bits.

Definition b32 := binary_float 24 128.
Definition b64 := binary_float 53 1024.

Definition widen (x : b32) : b64 :=
  match x with
  | B754_zero _ _ s => B754_zero _ _ s
  | B754_infinity _ _ s => B754_infinity _ _ s
  | B754_nan _ _ s _ _ => B754_infinity _ _ s (* placeholder: NaN outside the claim *)
  | B754_finite _ _ s m e _ => binary_normalize 53 1024 eq_refl eq_refl mode_NE (cond_Zopp s (Zpos m)) e s
  end.

Definition narrow (y : b64) : b32 :=
  match y with
  | B754_zero _ _ s => B754_zero _ _ s
  | B754_infinity _ _ s => B754_infinity _ _ s
  | B754_nan _ _ s _ _ => B754_infinity _ _ s
  | B754_finite _ _ s m e _ => binary_normalize 24 128 eq_refl eq_refl mode_NE (cond_Zopp s (Zpos m)) e s
  end.

Notation fexp32 := (SpecFloat.fexp 24 128).
Notation fexp64 := (SpecFloat.fexp 53 1024).

Lemma format32_in_64 x : generic_format radix2 fexp32 x -> generic_format radix2 fexp64 x.
Proof.
  intros H. destruct (Req_dec x 0) as [->|Hx]; [apply generic_format_0|].
  apply (generic_inclusion_mag radix2 fexp32 fexp64); [|exact H].
  intros _. unfold SpecFloat.fexp, SpecFloat.emin. lia.
Qed.

Lemma B2R_finite_F2R prec emax s m e H :
  B2R prec emax (B754_finite prec emax s m e H) = F2R (Float radix2 (cond_Zopp s (Zpos m)) e).
Proof. reflexivity. Qed.

Lemma widen_correct (x : b32) : is_finite 24 128 x = true ->
  B2R 53 1024 (widen x) = B2R 24 128 x /\ is_finite 53 1024 (widen x) = true /\ Bsign 53 1024 (widen x) = Bsign 24 128 x.
Proof.
  destruct x as [s|s|s pl Hpl|s m e Hb]; cbn [is_finite]; try discriminate; intros _.
  - cbn. auto.
  - cbn [widen].
    pose proof (binary_normalize_correct 53 1024 eq_refl eq_refl mode_NE (cond_Zopp s (Zpos m)) e s) as C.
    set (x := F2R (Float radix2 (cond_Zopp s (Zpos m)) e)) in *.
    assert (Hx : x = B2R 24 128 (B754_finite 24 128 s m e Hb)) by reflexivity.
    assert (G32 : generic_format radix2 fexp32 x) by (rewrite Hx; apply generic_format_B2R).
    assert (R : round radix2 fexp64 (round_mode mode_NE) x = x) by (apply round_generic; [apply valid_rnd_round_mode | apply format32_in_64; exact G32]).
    rewrite R in C.
    assert (L : (Rabs x < bpow radix2 1024)%R).
    { rewrite Hx. eapply Rlt_trans; [apply abs_B2R_lt_emax|]. apply bpow_lt; lia. }
    rewrite (Rlt_bool_true _ _ L) in C. destruct C as (C1 & C2 & C3).
    split; [rewrite C1; reflexivity|]. split; [exact C2|].
    rewrite C3. cbn [Bsign].
    unfold x. destruct s; cbn [cond_Zopp].
    + rewrite Rcompare_Lt; [reflexivity|]. apply F2R_lt_0. reflexivity.
    + rewrite Rcompare_Gt; [reflexivity|]. apply F2R_gt_0. reflexivity.
Qed.

Lemma narrow_finite_correct s m e Hb (x : b32) : is_finite 24 128 x = true ->
  B2R 53 1024 (B754_finite 53 1024 s m e Hb) = B2R 24 128 x ->
  let z := binary_normalize 24 128 eq_refl eq_refl mode_NE (cond_Zopp s (Zpos m)) e s in
  B2R 24 128 z = B2R 24 128 x /\ is_finite 24 128 z = true /\ Bsign 24 128 z = s.
Proof.
  intros Fx HR z.
  pose proof (binary_normalize_correct 24 128 eq_refl eq_refl mode_NE (cond_Zopp s (Zpos m)) e s) as C.
  set (r := F2R (Float radix2 (cond_Zopp s (Zpos m)) e)) in *.
  assert (Hr : r = B2R 24 128 x) by (rewrite <- HR; reflexivity).
  assert (R : round radix2 fexp32 (round_mode mode_NE) r = r) by (apply round_generic; [apply valid_rnd_round_mode | rewrite Hr; apply generic_format_B2R]).
  rewrite R in C.
  assert (L : (Rabs r < bpow radix2 128)%R) by (rewrite Hr; apply abs_B2R_lt_emax).
  rewrite (Rlt_bool_true _ _ L) in C. destruct C as (C1 & C2 & C3).
  split; [unfold z; rewrite C1; exact Hr|]. split; [exact C2|].
  unfold z; rewrite C3. unfold r. destruct s; cbn [cond_Zopp].
  - rewrite Rcompare_Lt; [reflexivity|]. apply F2R_lt_0. reflexivity.
  - rewrite Rcompare_Gt; [reflexivity|]. apply F2R_gt_0. reflexivity.
Qed.

Lemma narrow_correct (y : b64) (x : b32) : is_finite 53 1024 y = true -> is_finite 24 128 x = true ->
  B2R 53 1024 y = B2R 24 128 x -> Bsign 53 1024 y = Bsign 24 128 x -> narrow y = x.
Proof.
  intros Fy Fx HR HS.
  destruct y as [s|s|s pl Hpl|s m e Hb]; try discriminate; cbn [narrow].
  - apply B2R_Bsign_inj; auto.
  - destruct (narrow_finite_correct s m e Hb x Fx HR) as (A & B & C).
    apply B2R_Bsign_inj; auto. rewrite C. exact HS.
Qed.

Theorem narrow_widen (x : b32) : is_finite 24 128 x = true -> narrow (widen x) = x.
Proof.
  intros F. destruct (widen_correct x F) as (A & B & C).
  apply narrow_correct; auto.
Qed.
Print Assumptions narrow_widen.
