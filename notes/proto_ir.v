From Coq Require Import List String Bool ZArith Lia.
Import ListNotations.
Open Scope string_scope.

(* ---- assoc lists ---- *)
Fixpoint lookup {A} (k : string) (l : list (string * A)) : option A :=
  match l with [] => None | (k', v) :: r => if String.eqb k k' then Some v else lookup k r end.
Fixpoint update {A} (k : string) (v : A) (l : list (string * A)) : list (string * A) :=
  match l with [] => [(k, v)] | (k', v') :: r => if String.eqb k k' then (k, v) :: r else (k', v') :: update k v r end.

Lemma lookup_update_eq {A} k (v : A) l : lookup k (update k v l) = Some v.
Proof. induction l as [|[k' v'] r IH]; cbn; [rewrite String.eqb_refl; reflexivity|].
  destruct (String.eqb k k') eqn:E; cbn; rewrite ?String.eqb_refl, ?E; auto. Qed.
Lemma lookup_update_neq {A} k k' (v : A) l : k <> k' -> lookup k' (update k v l) = lookup k' l.
Proof. intros N. induction l as [|[k2 v2] r IH]; cbn.
  - destruct (String.eqb k' k) eqn:E; [apply String.eqb_eq in E; congruence|reflexivity].
  - destruct (String.eqb k k2) eqn:E; cbn.
    + apply String.eqb_eq in E; subst k2. destruct (String.eqb k' k) eqn:E2; [apply String.eqb_eq in E2; congruence|reflexivity].
    + destruct (String.eqb k' k2); auto. Qed.

(* ---- IR : nested inductive ---- *)
Inductive kind := KPrim | KObj | KObjList.
Inductive field := Field (name snake : string) (k : kind) (nullable : bool) (msg : option message)
with message := Msg (fields : list field).

Definition f_snake f := match f with Field _ s _ _ _ => s end.
Definition f_name f := match f with Field n _ _ _ _ => n end.
Definition m_fields m := match m with Msg fs => fs end.

(* strong induction principle *)
Section Ind.
  Variables (P : field -> Prop) (Q : message -> Prop).
  Hypothesis Hf_none : forall n s k nl, P (Field n s k nl None).
  Hypothesis Hf_some : forall n s k nl m, Q m -> P (Field n s k nl (Some m)).
  Hypothesis Hm : forall fs, Forall P fs -> Q (Msg fs).
  Fixpoint field_ind' (f : field) : P f :=
    match f with
    | Field n s k nl None => Hf_none n s k nl
    | Field n s k nl (Some m) => Hf_some n s k nl m (message_ind' m)
    end
  with message_ind' (m : message) : Q m :=
    match m with
    | Msg fs => Hm fs ((fix go (l : list field) : Forall P l :=
                         match l with [] => Forall_nil _ | f :: r => Forall_cons f (field_ind' f) (go r) end) fs)
    end.
End Ind.

(* ---- values ---- *)
Inductive tfty := TyStr | TyObj (ats : list (string * tfty)) | TyList (e : tfty).
Inductive tfval :=
| VStr (null unk : bool) (s : string)
| VObj (ats : list (string * tfty)) (null unk : bool) (attrs : list (string * tfval))
| VList (e : tfty) (null unk : bool) (es : list tfval).
Inductive goval :=
| GStr (s : string) | GPtr (o : option goval) | GSlice (o : option (list goval)) | GStruct (fs : list (string * goval)).

Inductive res (A : Type) := Ok (a : A) | Panic.
Arguments Ok {A}. Arguments Panic {A}.

Definition gfield (v : goval) (n : string) : option goval :=
  match v with GStruct fs => lookup n fs | _ => None end.

(* copy_to : structurally recursive on the IR *)
Fixpoint to_msg (m : message) (obj : goval) (tf : list (string * tfty) * list (string * tfval)) {struct m}
  : res (list (string * tfty) * list (string * tfval)) :=
  match m with
  | Msg fs =>
    (fix go (l : list field) (tf : list (string * tfty) * list (string * tfval)) {struct l} :=
       match l with
       | [] => Ok tf
       | f :: r => match to_field f obj tf with Ok tf' => go r tf' | Panic => Panic end
       end) fs tf
  end
with to_field (f : field) (obj : goval) (tf : list (string * tfty) * list (string * tfval)) {struct f}
  : res (list (string * tfty) * list (string * tfval)) :=
  let '(tys, attrs) := tf in
  match f with
  | Field n s k nl om =>
    match lookup s tys with
    | None => Ok tf
    | Some t =>
      match k, om, gfield obj n with
      | KPrim, _, Some (GStr x) =>
          let v := match lookup s attrs with Some (VStr nu _ _) => VStr nu false x | _ => VStr (String.eqb x "") false x end in
          Ok (tys, update s v attrs)
      | KObj, Some m, Some (GPtr o) =>
          match t with
          | TyObj ats =>
            let '(nu, cur) := match lookup s attrs with Some (VObj _ nu _ a) => (nu, a) | _ => (false, []) end in
            match o with
            | None => Ok (tys, update s (VObj ats true false cur) attrs)
            | Some inner =>
              match to_msg m inner (ats, cur) with
              | Ok (_, a') => Ok (tys, update s (VObj ats nu false a') attrs)
              | Panic => Panic
              end
            end
          | _ => Ok tf
          end
      | KObjList, Some m, Some (GSlice o) =>
          match t with
          | TyList (TyObj ats) =>
            let es := match o with None => [] | Some l => l end in
            let fix each (l : list goval) : res (list tfval) :=
                match l with
                | [] => Ok []
                | e :: r => match to_msg m e (ats, []) with
                            | Ok (_, a') => match each r with Ok vs => Ok (VObj ats false false a' :: vs) | Panic => Panic end
                            | Panic => Panic end
                end in
            match each es with
            | Ok vs => Ok (tys, update s (VList (TyObj ats) (Nat.eqb (List.length es) 0) false vs) attrs)
            | Panic => Panic
            end
          | _ => Ok tf
          end
      | _, _, _ => Panic
      end
    end
  end.

(* locality: a field step only touches its own key *)
Lemma to_field_local f obj tys attrs tys' attrs' k :
  to_field f obj (tys, attrs) = Ok (tys', attrs') -> k <> f_snake f -> lookup k attrs' = lookup k attrs /\ tys' = tys.
Proof.
  destruct f as [n s kd nl om]; cbn [to_field f_snake]. intros H N.
  destruct (lookup s tys) as [t|]; [|inversion H; auto].
  destruct kd, om as [m|], (gfield obj n) as [[x|o|o|fs]|]; try discriminate;
    try (inversion H; subst; split; [apply lookup_update_neq; congruence|reflexivity]).
  - destruct t; try (inversion H; subst; auto; fail).
    destruct (lookup s attrs) as [[| ? nu ? a|]|]; destruct o as [inner|];
    repeat match goal with
    | H : context [to_msg ?m ?i ?x] |- _ => destruct (to_msg m i x) as [[? ?]|]; try discriminate
    end; inversion H; subst; (split; [apply lookup_update_neq; congruence|reflexivity]).
  - destruct t as [| |e]; try (inversion H; subst; auto; fail).
    destruct e; try (inversion H; subst; auto; fail).
    match type of H with context [match ?X with Ok _ => _ | Panic => _ end] => destruct X; try discriminate end.
    inversion H; subst; (split; [apply lookup_update_neq; congruence|reflexivity]).
Qed.

(* no unknown anywhere, by the strong induction principle *)
Fixpoint no_unk (v : tfval) : bool :=
  match v with
  | VStr _ u _ => negb u
  | VObj _ _ u a => negb u && (fix go l := match l with [] => true | (_, x) :: r => no_unk x && go r end) a
  | VList _ _ u es => negb u && (fix go l := match l with [] => true | x :: r => no_unk x && go r end) es
  end.


Definition all_no_unk (a : list (string * tfval)) : Prop := forall k v, lookup k a = Some v -> no_unk v = true.

Fixpoint attrs_ok (l : list (string * tfval)) : bool := match l with [] => true | (_, x) :: r => no_unk x && attrs_ok r end.
Lemma no_unk_obj ats n u a : no_unk (VObj ats n u a) = negb u && attrs_ok a.
Proof. reflexivity. Qed.
Fixpoint elems_ok (l : list tfval) : bool := match l with [] => true | x :: r => no_unk x && elems_ok r end.
Lemma no_unk_list e n u es : no_unk (VList e n u es) = negb u && elems_ok es.
Proof. reflexivity. Qed.

Lemma attrs_ok_lookup a : attrs_ok a = true -> all_no_unk a.
Proof. induction a as [|[k x] r IH]; cbn; intros H k' v L; cbn in L; [discriminate|].
  apply andb_true_iff in H as [H1 H2]. destruct (String.eqb k' k); [inversion L; subst; auto|eapply IH; eauto]. Qed.
Lemma attrs_ok_update a k v : attrs_ok a = true -> no_unk v = true -> attrs_ok (update k v a) = true.
Proof. induction a as [|[k' x] r IH]; cbn; intros H Hv; [rewrite Hv; reflexivity|].
  apply andb_true_iff in H as [H1 H2]. destruct (String.eqb k k'); cbn; rewrite ?Hv, ?H1, ?H2, ?IH; auto. Qed.
Lemma attrs_ok_lookup_some a k v : attrs_ok a = true -> lookup k a = Some v -> no_unk v = true.
Proof. intros H L. eapply attrs_ok_lookup; eauto. Qed.

Definition P_field (f : field) := forall obj tys attrs tys' attrs',
  attrs_ok attrs = true -> to_field f obj (tys, attrs) = Ok (tys', attrs') -> attrs_ok attrs' = true.
Definition Q_msg (m : message) := forall obj tys attrs tys' attrs',
  attrs_ok attrs = true -> to_msg m obj (tys, attrs) = Ok (tys', attrs') -> attrs_ok attrs' = true.

Theorem to_msg_no_unk : forall m, Q_msg m.
Proof.
  apply (message_ind' P_field Q_msg).
  - (* field without message *)
    intros n s k nl obj tys attrs tys' attrs' Ha H. cbn [to_field] in H.
    destruct (lookup s tys) as [t|]; [|inversion H; subst; auto].
    destruct k, (gfield obj n) as [[x|o|o|fs]|]; try discriminate.
    inversion H; subst. apply attrs_ok_update; auto.
    destruct (lookup s attrs) as [[nu u y| |]|]; reflexivity.
  - (* field with message *)
    intros n s k nl m IHm obj tys attrs tys' attrs' Ha H. cbn [to_field] in H.
    destruct (lookup s tys) as [t|]; [|inversion H; subst; auto].
    destruct k, (gfield obj n) as [[x|o|o|fs]|]; try discriminate.
    + inversion H; subst. apply attrs_ok_update; auto.
      destruct (lookup s attrs) as [[nu u y| |]|]; reflexivity.
    + destruct t as [|ats|e]; try (inversion H; subst; auto; fail).
      assert (Hcur : forall nu cur, (let '(nu0, cur0) := match lookup s attrs with Some (VObj _ nu1 _ a) => (nu1, a) | _ => (false, []) end in (nu0, cur0)) = (nu, cur) -> attrs_ok cur = true).
      { intros nu cur Hc. destruct (lookup s attrs) as [[| ats0 nu1 u a|]|] eqn:L; inversion Hc; subst; try reflexivity.
        apply (attrs_ok_lookup_some _ _ _ Ha) in L. rewrite no_unk_obj in L. apply andb_true_iff in L; tauto. }
      destruct (match lookup s attrs with Some (VObj _ nu1 _ a) => (nu1, a) | _ => (false, []) end) as [nu cur] eqn:Ec.
      specialize (Hcur nu cur eq_refl).
      destruct o as [inner|].
      * destruct (to_msg m inner (ats, cur)) as [[ty2 a2]|] eqn:E; try discriminate.
        inversion H; subst. apply attrs_ok_update; auto. rewrite no_unk_obj. cbn [negb andb]. eapply IHm; eauto.
      * inversion H; subst. apply attrs_ok_update; auto.
    + destruct t as [| |e]; try (inversion H; subst; auto; fail).
      destruct e as [|ats|]; try (inversion H; subst; auto; fail).
      match type of H with context [match ?X with Ok _ => _ | Panic => _ end] => destruct X as [vs|] eqn:E; try discriminate end.
      inversion H; subst. apply attrs_ok_update; auto. rewrite no_unk_list. cbn [negb andb].
      clear H. revert vs E. generalize (match o with Some l => l | None => [] end) as es.
      induction es as [|e r IH]; intros vs E; cbn in E.
      * inversion E; reflexivity.
      * destruct (to_msg m e (ats, [])) as [[ty2 a2]|] eqn:E1; try discriminate.
        match type of E with context [match ?X with Ok _ => _ | Panic => _ end] => destruct X as [vs'|] eqn:E2; try discriminate end.
        inversion E; subst. cbn [elems_ok]. rewrite no_unk_obj. cbn [negb andb].
        rewrite (IHm e ats [] ty2 a2 eq_refl E1). cbn. apply (IH vs' eq_refl).
  - (* message *)
    intros fs HF obj tys attrs tys' attrs' Ha H. cbn [to_msg] in H.
    revert tys attrs Ha H. induction HF as [|f r Hf HF IH]; intros tys attrs Ha H.
    + inversion H; subst; auto.
    + destruct (to_field f obj (tys, attrs)) as [[ty2 a2]|] eqn:E; try discriminate.
      eapply IH; [|exact H]. eapply Hf; eauto.
Qed.
Print Assumptions to_msg_no_unk.
