#!/bin/sh
# builds the framework from files on disk only (offline): harness front end, tables regenerated from
# /repo's sources (coq/Generated/Src.v), Rocq development (full .vo build), extraction + model runner
set -e
cd "$(dirname "$0")"
export GOFLAGS=-mod=mod GOPROXY=off GOSUMDB=off GOTOOLCHAIN=local
mkdir -p bin .cache
(cd harness && go build -o ../bin/vh ./cmd/vh)
./bin/vh translate "${VERIF_REPO:-/repo}" coq/Generated/Src.v || [ $? -eq 3 ]
# -k: a file that no longer agrees with the sources (Proofs/SrcAgree.v) must not keep the model from being built;
# the checks report it for the properties that rely on it
(cd coq && coq_makefile -f _CoqProject -o Makefile >/dev/null && (timeout 3000 make -k -j16 || true) && test -f Model/Build.vo)
(cd ocaml && ./build.sh)
echo "setup done"
