#!/bin/sh
# builds the framework from files on disk only (offline): Rocq development (full .vo build),
# extraction + model runner, harness front end
set -e
cd "$(dirname "$0")"
export GOFLAGS=-mod=mod GOPROXY=off GOSUMDB=off GOTOOLCHAIN=local
mkdir -p bin .cache
(cd coq && coq_makefile -f _CoqProject -o Makefile >/dev/null && timeout 3000 make -j16)
(cd ocaml && ./build.sh)
(cd harness && go build -o ../bin/vh ./cmd/vh)
echo "setup done"
